#!/usr/bin/env python3
"""Run the quick (or given) tier of each property against its seeded change(s) under seeded/<ID>/patch*.diff on a scratch copy of
/repo/src with the patch applied (tools/with_patch.sh).   usage: tools/run_seeded.py [--tier quick|thorough] [ID ...]
Updates seeded/RESULTS.json and seeded/RESULTS.md."""
import glob
import json
import os
import re
import subprocess
import sys
import time

HERE = os.path.dirname(os.path.dirname(os.path.abspath(__file__)))


def main():
    args = sys.argv[1:]
    tier = "quick"
    if "--tier" in args:
        i = args.index("--tier")
        tier = args[i + 1]
        del args[i:i + 2]
    props = [a.upper() for a in args]
    respath = os.path.join(HERE, "seeded", "RESULTS.json")
    try:
        results = json.load(open(respath))
    except Exception:
        results = {}
    for d in sorted(glob.glob(os.path.join(HERE, "seeded", "C*"))):
        prop = os.path.basename(d)
        if props and prop not in props:
            continue
        for p in sorted(glob.glob(os.path.join(d, "patch*.diff"))):
            name = prop + "/" + os.path.basename(p)
            t0 = time.time()
            env = dict(os.environ, VF_NO_EVIDENCE="1")
            meta = {}
            try:
                suf = os.path.basename(p)[5:-5]
                meta = json.load(open(os.path.join(d, "meta%s.json" % suf)))
            except Exception:
                pass
            check_prop = meta.get("check_with", prop)       # a change seeded against one property may be another property's to find
            r = subprocess.run([os.path.join(HERE, "tools", "with_patch.sh"), p, os.path.join(HERE, "check"), check_prop, "--tier", tier],
                               capture_output=True, text=True, env=env, cwd=HERE)
            sigs = sorted(set(re.findall(r"signature=(\S+)", r.stdout)))
            results[name] = {"property": prop, "tier": tier, "exit": r.returncode, "detected": r.returncode == 1, "signatures": sigs[:8],
                             "wall_s": round(time.time() - t0, 1), "needs": meta.get("needs", ""), "checked_with": check_prop}
            print("%-28s exit=%d detected=%s %s" % (name, r.returncode, r.returncode == 1, sigs[:3]), flush=True)
            if r.returncode not in (0, 1):
                print(r.stdout[-800:], r.stderr[-1500:])
    json.dump(results, open(respath, "w"), indent=1, sort_keys=True)
    with open(os.path.join(HERE, "seeded", "RESULTS.md"), "w") as fh:
        fh.write("# Seeded changes (written by sub-agents that saw only the property text) versus the checks\n\n"
                 "Each row: the property's check run on a scratch copy of /repo/src with the patch applied.\n\n"
                 "| change | what it needs to manifest | tier | detected | signatures | wall s |\n|---|---|---|---|---|---|\n")
        for name in sorted(results):
            r = results[name]
            fh.write("| %s | %s | %s | %s | %s | %s |\n" % (name, r.get("needs", "").replace("|", "/"), r["tier"], ("yes" if r.get("checked_with", r["property"]) == r["property"] else "yes (by %s)" % r["checked_with"]) if r["detected"] else "NO (exit %d)" % r["exit"],
                                                      ", ".join(r["signatures"][:4]), r["wall_s"]))
    return 0


if __name__ == "__main__":
    sys.exit(main())

#!/bin/sh
# usage: tools/with_patch.sh <patch.diff> <command...>   (runs command with VF_REPO pointing at a patched scratch copy)
P="$(realpath "$1")"; shift
D="$(mktemp -d /var/tmp/vfmut.XXXXXX)"
mkdir -p "$D/repo"
cp -r /repo/src "$D/repo/src"
( cd "$D/repo" && patch -p1 -s < "$P" ) || { echo "PATCH FAILED"; rm -rf "$D"; exit 3; }
VF_REPO="$D/repo" "$@"
rc=$?
rm -rf "$D"
exit $rc

#!/usr/bin/env python3
"""usage: tools/mk_seed_worktrees.py <prefix> [ID ...]  -> git worktrees /tmp/<prefix>-<ID> of /repo HEAD, each with PROPERTY.txt
(the property text only: title, statement, quantifier, anchor files)."""
import json
import os
import subprocess
import sys

prefix = sys.argv[1]
ids = set(a.upper() for a in sys.argv[2:])
for line in open(os.path.join(os.path.dirname(os.path.dirname(os.path.abspath(__file__))), "properties.jsonl")):
    d = json.loads(line)
    if ids and d["id"] not in ids:
        continue
    w = "/tmp/%s-%s" % (prefix, d["id"])
    subprocess.run(["git", "-C", "/repo", "worktree", "remove", "--force", w], capture_output=True)
    subprocess.run(["git", "-C", "/repo", "worktree", "add", "-q", w, "HEAD"], check=True)
    with open(os.path.join(w, "PROPERTY.txt"), "w") as fh:
        fh.write("%s - %s\n\n%s\n\nQuantified over: %s\n\nRelevant files: %s\n" % (d["id"], d["title"], d["statement"], d["quantifier"]["text"], ", ".join(d["anchors"]["files"])))
    print(w)

#!/usr/bin/env python3
"""Generate mutant patches (mutants/*.patch) from replace-specs, against /repo's working tree.
Each spec: (property, name, file relative to /repo, old text, new text[, count])."""
import difflib
import os
import sys

HERE = os.path.dirname(os.path.dirname(os.path.abspath(__file__)))
sys.path.insert(0, os.path.join(HERE, "tools"))
from mutant_specs import SPECS  # noqa: E402

REPO = "/repo"


def main():
    out = os.path.join(HERE, "mutants")
    os.makedirs(out, exist_ok=True)
    bad = 0
    for spec in SPECS:
        prop, name, rel, old, new = spec[:5]
        count = spec[5] if len(spec) > 5 else 1
        olds = old if isinstance(old, list) else [old]
        news = new if isinstance(new, list) else [new]
        rels = rel if isinstance(rel, list) else [rel] * len(olds)
        diff = ""
        ok = True
        for r in dict.fromkeys(rels):
            src = open(os.path.join(REPO, r)).read()
            dst = src
            for rr, o, n in zip(rels, olds, news):
                if rr != r:
                    continue
                if dst.count(o) < 1:
                    ok = False
                dst = dst.replace(o, n, count)
            diff += "".join(difflib.unified_diff(src.splitlines(True), dst.splitlines(True), "a/" + r, "b/" + r))
        if not ok:
            print("SPEC DOES NOT APPLY:", prop, name)
            bad += 1
            continue
        with open(os.path.join(out, "%s-%s.patch" % (prop, name)), "w") as fh:
            fh.write(diff)
    print("%d specs, %d not applicable" % (len(SPECS), bad))
    return 1 if bad else 0


if __name__ == "__main__":
    sys.exit(main())

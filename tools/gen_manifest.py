#!/usr/bin/env python3
"""Regenerates MANIFEST.json from the table below and validates it (and any evidence files)."""
import json
import os
import sys

HERE = os.path.dirname(os.path.dirname(os.path.abspath(__file__)))

TITLES = {}
for line in open(os.path.join(HERE, "properties.jsonl")):
    d = json.loads(line)
    TITLES[d["id"]] = d["title"]

# id -> (technique, level text, level note)
CHECKS = {
    "C20": (
        "exhaustive enumeration against an independent reference codec (property-based, finite domain)",
        "Every requested lifetime 0..7 000 000 ms (three entry points), all 256 LT codes, all hop limits x MIB defaults x "
        "transports through the real router, and all 65 536 RHL/MHL pairs x 5 packet types are enumerated and compared with "
        "an independent implementation of clause 9.6.4; within those domains the verdict is complete, not sampled.",
        "Trusts vf/refcodec.py (LT = multiplier x base; header layouts) and the harness link layer that captures LinkLayer.send(); "
        "requests >= 1 000 000 ms are a recorded known finding (pinned by the unit tests).",
    ),
    "C02": (
        "differential against an independent reference codec: hypothesis-generated field vectors and requests, per-field exhaustive sweeps",
        "Every header encoder/decoder and every packet the router originates or forwards (beacon, SHB, GBC/GAC, GUC, LS request/reply, "
        "forwarded TSB/GBC/GAC/GUC/LS, BTP-A/B) is compared octet for octet / field for field with an independently written codec; all "
        "fields up to 16 bits are swept exhaustively at 8 base vectors, wider fields are boundary-biased samples.",
        "Trusts vf/refcodec.py as a faithful transcription of EN 302 636-4-1 V1.4.1 clause 9 and EN 302 636-5-1 clause 7; LT octets are compared by "
        "value (the base choice is not prescribed); secured packets are covered by C05, not here.",
    ),
    "C08": (
        "model-based history testing (hypothesis event lists on a virtual clock) plus algebraic-law checks on timestamp pairs/triples",
        "Reception/clock histories around the 2^32 ms wrap are replayed on the real router and compared after every event with a reference "
        "location-table model (newest PV by serial arithmetic, neighbour flag, expiry); the timestamp order is checked for irreflexivity, "
        "antisymmetry, agreement with real time below 2^31 ms, operator consistency and transitivity on boundary-biased tuples.",
        "Sampled histories (<= 80 events, 4 sources); no verdict within 2 ms of the lifetime boundary; lazy purging between receptions is a recorded known finding.",
    ),
    "C06": (
        "model-based history testing (hypothesis event lists, virtual timers) plus generated multi-station flood topologies on a simulated ether",
        "Reception histories with frequent duplicates/replays, RHL 0..255, SN wrap, DPL lengths 1/2/8, SIMPLE and CBF are run on the real "
        "router and every indication and transmitted frame is checked against a duplicate-packet-list model and byte-compared with the "
        "received frame (RHL-1, DE PV rule); floods in drawn line/mesh topologies of real stations are checked for termination, at-most-once "
        "transmission/delivery, exactly-once delivery under SIMPLE, and decreasing RHL.",
        "Sampled histories (<= 60 frames) and topologies (<= 5 stations); PDR limiting disabled via MIB; exactly-once delivery not demanded under CBF (suppression is inherent).",
    ),
    "C07": (
        "hypothesis-generated placements against an independent geometry oracle (two projections, tolerance band) on the real receive and request paths",
        "Receivers and sources are placed by construction inside, outside and around the border of drawn circles/rectangles/ellipses with "
        "drawn azimuth anywhere on the globe; delivery, the Annex D forwarding decision and the area-size limit are compared with an "
        "independent EN 302 931 implementation, verdicts being issued only where two different projections agree outside a 3 % + 2 m band.",
        "Sampled; no verdict in the border band, beyond 85 degrees latitude or across the antimeridian; Annex D 'sender' = source.",
    ),
    "C01": (
        "model-based history testing: hypothesis request/reception/clock/mute histories on 2..4 real stations joined by a simulated ether",
        "Real BTP and GeoNetworking routers of 2..4 stations exchange frames through an in-process ether; every BTPDataIndication at every "
        "port of every station is compared (content, order per sender, source position vector, transport type, port information) with a "
        "delivery model covering SHB, GBC/GAC (in-area by an independent geometry oracle), GUC direct and through the location service "
        "including requests queued behind a pending lookup and unrelated receptions in between, anywhere on the globe.",
        "Sampled histories (<= 16 steps, <= 4 stations, full mesh); security off (secured delivery is C03/C05); SCF cleared; no verdict in the geometry band.",
    ),
    "C19": (
        "differential against independent reference implementations: exhaustive boundary sequences (reactive) and hypothesis sequences (adaptive, gate keeper)",
        "The reactive machine is enumerated over all sequences of boundary representatives of both Annex A tables from every start state up to "
        "a length bound and compared with a reference machine and with the statement's invariants; delta is recomputed per clause 5.4 eq. 1-6 "
        "for drawn parameter sets and CBR sequences; the gate keeper is driven by drawn arrival/update/probe sequences placed at and around the "
        "reference opening times of eq. B.1/B.2.",
        "Annex A values as transcribed in vf/props/c19.py (identical to what the repository's unit tests pin); 2 ns no-verdict window around gate opening times.",
    ),
    "C09": (
        "model-based history testing of the certificate library with forged-certificate injection, judged by an independent chain checker; enumerated issuing and acceptance grids",
        "Operation histories mixing genuine and forged certificates (10+ forgery classes built by signing directly with ecdsa) are applied to the "
        "real CertificateLibrary/VerifyService; after every operation an independent checker re-verifies every stored AA/AT (issuer present up to "
        "the configured root, signature, permission containment incl. 'all'); message SUCCESS is checked against ticket permissions and validity; "
        "the issuing API is enumerated over issuer permissions x chain lengths x subject permissions.",
        "Trusts asn1tools + the repository's ASN.1 text for encoding and python-ecdsa for signatures; SSP/eeType/regions not examined; one-directional message oracle.",
    ),
    "C03": (
        "fault injection / mutation fuzzing of captured genuine secured packets plus attacker-built packets, judged by an independent signature verifier (delivered => genuine); exhaustive single-bit flips",
        "Genuine packets from real signing stations are mutated at byte level (every single bit of 5 packet shapes enumerated; substitutions, "
        "truncations, extensions) and at field level (decoded structure altered and OER re-encoded), mixed with attacker-signed packets, unsecured "
        "packets and replays in generated histories on a real secured receiver; every delivery is re-verified with python-ecdsa against the "
        "genuine ticket set and the delivered bytes are compared with the signed payload.",
        "Cannot rule out forgeries outside the mutation grammar (no cryptanalysis; ECDSA malleability not generated); trusts asn1tools decode/encode and python-ecdsa.",
    ),
    "C05": (
        "model-based history testing on 2..4 real secured stations over a simulated ether with a virtual clock; every emitted packet decoded and checked against the TS 103 097 profile",
        "Emission/advance/join/leave histories drive real sign and verify services end to end; a knowledge model (who holds whose ticket, who asked "
        "whom) predicts for every message and receiver whether it must be accepted, and obliges certificate inclusion after 1 s or after a peer's "
        "inline request (the two-exchange P2PCD bound); each emitted EtsiTs103097Data is decoded independently and compared with the CAM/VAM, DENM "
        "and generic profiles (signer choice and value, mandatory/forbidden header fields, generation time and location, signed payload, signature).",
        "Sampled histories (<= 40 steps, <= 4 stations); certificate inclusion checked one-directionally; full mesh; trusts asn1tools + python-ecdsa.",
    ),
    "C11": (
        "hypothesis-generated sensor reports through the real CA / VRU / DEN services with an independent mapping oracle, round trip and constraint table; enumerated receiver-side time reconstruction",
        "GNSS reports over the full range (all subsets of optional keys, confidence-class boundaries, gdt wraps, all station types/roles, all "
        "clustering states) are run through the real services on virtual time; every BTPDataRequest payload is decoded, re-encoded, checked "
        "against the CDD constraints and compared field by field with an independent mapping (in-range within one unit, out-of-range and "
        "unavailable codes), and every report must produce a message.",
        "Sampled inputs; rounding direction free; ellipse orientation not judged; report key 'time' always present; trusts asn1tools UPER for decoding.",
    ),
    "C10": (
        "model-based trajectory testing on virtual time: hypothesis-generated report sequences and service life cycles against independent CAM/VAM rule engines",
        "Trajectories from a segment grammar (accelerate, turn across 0/360, stop-and-go, jitter, gaps, dropped fields) at 1..50 Hz across "
        "generationDeltaTime wraps drive the real CA service (virtual timers, start/stop/restart) and VRU service; every handed-over message is "
        "time-stamped by the virtual clock, decoded, and checked by rule engines: gap bounds, required CAM at the first eligible check after a "
        "threshold crossing, LF container exactly when due, silence outside start..stop, content = latest report, VAM first-report / minimum / "
        "maximum gap / LF rules.",
        "Sampled trajectories (quick: <= 60 s, thorough: up to hours of virtual time); +-1.5 ms slack; extra CAMs allowed; VAM < 100 ms gaps are a recorded known finding.",
    ),
    "C17": (
        "generated event schedules on the real DEN service with repetition threads parked on a virtual clock (deterministic discrete-event execution), checked against a schedule/identity oracle; reception into a real LDM",
        "Overlapping events with drawn intervals, durations, positions and kinds are requested from the real DEN service whose sleeping "
        "repetition threads are driven by the harness' virtual clock; every BTPDataRequest is decoded and compared with the expected schedule "
        "(count, instants, GBC circle at the event position, stable and unique action id, reference times); received DENMs are fed through "
        "DENMReceptionManagement into a real LDM and queried back through IF.LDM.4.",
        "Sampled schedules (<= 5 events per station); 1 ms tolerance; LDM placed away from the event positions (C12 finding).",
    ),
    "C18": (
        "exhaustive bounded exploration of the clustering state machine with state hashing, hypothesis event sequences, and closed loops of real VRU services through the real UPER coder",
        "All event sequences up to a depth bound over a 26-symbol alphabet (commands, received VAMs, updates, clock steps) are applied to the real "
        "VBSClusteringManager and the statement's invariants and duration clauses are checked after every event; longer random sequences "
        "follow; 2..3 real VRUAwarenessService instances exchange VAMs encoded and decoded by the real coder to check that an advertised cluster "
        "is seen, a join completes, cardinality grows and members are released on leader silence, break-up or leave.",
        "Depth-bounded exhaustiveness (quick 6, thorough 7) relative to the alphabet; duration clauses judged at update() instants; CPM-reason break-up is a recorded known finding.",
    ),
    "C12": (
        "model-based history testing of the LDM facade (hypothesis operation lists on a virtual clock) against a reference map and two registries",
        "Long histories of register/deregister, add, update, delete, request, maintenance and clock advances are applied to the real facade from "
        "LDMFactory; every response is predicted by a reference map id -> record and after every step all stored objects and both registries are "
        "read back and compared (content, timestamp, location, validity, provider, identifiers never reused, refused requests without effect).",
        "Sampled histories (quick <= 120 operations, thorough <= 300); one-second validity band; no persistence verdict outside the area of maintenance; three recorded known findings (area collection, unregistered update/delete).",
    ),
    "C13": (
        "differential testing of the two LDM back-ends plus a brute-force predicate evaluator over hypothesis-generated stores, filters, type selections and orders",
        "Randomly populated stores (objects with and without optional containers, several types) are loaded into a dictionary-backed and a "
        "TinyDB-backed LDM through IF.LDM.3; generated requests (all 8 operators, one or two statements with and/or, matching / non-matching / "
        "boundary reference values, missing attributes, type selections, order tuples) are answered through IF.LDM.4 and compared as multisets "
        "with a brute-force evaluator, checked for the requested order, and compared between the back-ends.",
        "Sampled stores (<= 25 objects) with small value domains; JSON-serialisable messages only; order judged only when all keys are present.",
    ),
    "C14": (
        "model-based history testing of LDM subscriptions (hypothesis operation lists with scenario blocks on a virtual clock) against a reference subscription model",
        "Histories of subscribe (valid and every invalid parameter class), unsubscribe, register/deregister, add, explicit and reactive attendance "
        "and clock advances run on the real LDM; a reference model keyed by the returned subscription ids predicts at each attendance exactly "
        "which callbacks fire, with which objects (brute-force filter evaluator) and in which order, and that nothing fires after "
        "unsubscription / deregistration or outside an attendance.",
        "Sampled histories (<= 80 steps, 3 consumers); no verdict for attendances before a subscription's first interval has elapsed; identical requests share an id.",
    ),
    "C04": (
        "fault-injection fuzzing of the real receive loops: hypothesis streams of valid traffic with random, grammar-based, mutated and 'shadow' bad frames on a scripted socket / queue, plus coverage-guided atheris (libFuzzer) campaigns over the flexstack package, judged by loop liveness and a differential twin station",
        "A full station (GN + BTP routers, CA / DEN / VRU reception, optional LDM, security off and on) reads generated streams through the real "
        "RawLinkLayer.receive() thread from a scripted socket (1 case in 4: the real PythonCV2XLinkLayer.callback_handler_loop from a scripted queue, vendor binding stubbed); the loop must consume every frame and end only at the scripted OSError / stop signal, own-MAC "
        "and foreign-unicast frames must never reach the router, and a twin station that gets only the valid frames must end with identical "
        "facility deliveries, location-table entries, LDM objects and trust store. atheris campaigns (2 x 1500 runs quick, 16 x 20000 thorough; empty and seeded corpus) decode the fuzzer's bytes into 1..3 bad frames "
        "inserted into a fixed valid stream, with the same differential oracle inside the target; findings are collected by signature without stopping the campaign.",
        "Sampled streams (<= 14 frames) from five bad-frame generators; bad frames use a source disjoint from the valid ones except the 'shadow' generator (certainly malformed twins of a later frame of a valid source); forwarding output not compared; the vendor side of the C-V2X queue (receive_process) is not exercised; libFuzzer campaigns are pinned by -seed/-runs only approximately, the saved input is the reproducible unit.",
    ),
    "C15": (
        "schedule fuzzing with an owned deterministic scheduler: real threads serialised at bytecode-instruction granularity (sys.settrace opcode events), cooperative locks, virtual timers as actors; hypothesis-generated and systematically enumerated schedules",
        "The schedule (which runnable actor continues at each preemption point inside router.py / location_table.py) is the generated, shrinkable, "
        "replayable input. Random schedules with few priority-change points and dense random schedules over drawn 2..4-actor scenarios, plus every "
        "single-preemption schedule of fixed scenarios, are executed on the real Router; the send log and end state are checked for distinct "
        "sequence numbers, CBF at-most-once / never-after-cancel, emitted position vectors, exactly-once handling of requests buffered behind a "
        "location lookup, actor failures and deadlocks (wait-for among cooperative locks).",
        "Explores bounded scenarios and a preemption bound: finds races, cannot prove their absence; single bytecodes assumed atomic (GIL); deterministic after a per-process tracing warm-up.",
    ),
    "C16": (
        "schedule fuzzing with the owned bytecode-level scheduler plus a linearizability checker (memoised exhaustive search over sequential orders) against a reference store",
        "2..4 actors issue IF.LDM.3 / IF.LDM.4 calls, maintenance and attendance passes on the real dictionary-backed LDM while the scheduler "
        "decides at every preemption point inside the LDM modules who continues (hypothesis-generated sparse/dense schedules over drawn scenarios "
        "and every single-preemption schedule of fixed scenarios); the recorded responses and the final store and registries must be "
        "explainable by a sequential order consistent with real-time precedence; identifiers unique; no actor raises; no deadlock.",
        "Bounded scenarios (<= 16 calls) and preemption bound; sequential specification = C12 reference map without expiry; update/delete not gated by registration in the specification (C12 findings).",
    ),
}

NOT_APPLICABLE = {
}


def main():
    checks = []
    for pid in sorted(CHECKS):
        tech, text, note = CHECKS[pid]
        checks.append({
            "property_id": pid,
            "quick_cmd": "./check %s --tier quick" % pid,
            "thorough_cmd": "./check %s --tier thorough" % pid,
            "evidence_file": "evidence/%s.json" % pid,
            "replay_cmd_template": "./check %s --replay {path}" % pid,
            "engine": "vf",
            "level_claimed": {"category": "exploration", "text": text, "design_ref": "DESIGN.md section 2, %s" % pid},
            "level_note": note,
            "technique": tech,
        })
    na = []
    for pid in sorted(TITLES):
        if pid not in CHECKS:
            na.append({"property_id": pid, "reason": NOT_APPLICABLE.get(pid, "check not built yet in this session (planned, see DESIGN.md section 2); not claimed until it runs quietly on the unchanged tree")})
    man = {
        "version": 1,
        "setup_cmd": "./setup.sh",
        "hooks": {
            "guard": "FLEXSTACK_VERIF",
            "enable": "no repository hooks are used: the harness substitutes collaborators and module attributes (clock, timers, sockets) from outside; checks import /repo/src directly (editable install)",
            "baseline_off_cmd": "cd /repo && /venv/bin/python -m pytest -ra -q -p no:cacheprovider --timeout=900 --continue-on-collection-errors",
            "source_commits": [],
            "add_only": True,
        },
        "engines": [
            {"name": "vf", "path": "vf/", "serves_properties": sorted(CHECKS),
             "kind_free_text": "Hypothesis-driven (plain + history/event-list model-based) and exhaustive-enumeration property checks with independent oracles, virtual clock/timers, simulated ether, owned scheduler; atheris for byte-level fuzzing"},
        ],
        "checks": checks,
        "not_applicable": na,
        "notes": "Every check: exit 0 = held (KNOWN-FINDING lines allowed), 1 = VIOLATION line(s), 2 = harness error. VERIF_SEED selects the hypothesis seed. known_findings.json lists recorded defects and fixed: entries.",
    }
    path = os.path.join(HERE, "MANIFEST.json")
    with open(path, "w") as fh:
        json.dump(man, fh, indent=1)
        fh.write("\n")
    # validation (tooling venv has jsonschema)
    try:
        import jsonschema
    except ImportError:
        print("jsonschema not importable here; run with python3-vt to validate")
        return 0
    ms = json.load(open("/root/.vp/MANIFEST.schema.json"))
    jsonschema.validate(man, ms)
    es = json.load(open("/root/.vp/EVIDENCE.schema.json"))
    bad = 0
    for c in checks:
        ep = os.path.join(HERE, c["evidence_file"])
        if os.path.exists(ep):
            try:
                jsonschema.validate(json.load(open(ep)), es)
            except Exception as e:
                bad += 1
                print("EVIDENCE INVALID", ep, str(e)[:300])
        else:
            print("evidence missing", ep)
    print("manifest ok: %d checks, %d not_applicable, %d invalid evidence" % (len(checks), len(na), bad))
    return 1 if bad else 0


if __name__ == "__main__":
    sys.exit(main())

#!/usr/bin/env python3
"""Run each mutant patch against the quick check of its property on a scratch copy of /repo/src.
usage: tools/run_mutants.py [PROP ...]     -> updates mutants/RESULTS.json and mutants/RESULTS.md"""
import glob
import json
import os
import re
import subprocess
import sys
import time

HERE = os.path.dirname(os.path.dirname(os.path.abspath(__file__)))


def main():
    props = [a.upper() for a in sys.argv[1:]]
    respath = os.path.join(HERE, "mutants", "RESULTS.json")
    try:
        results = json.load(open(respath))
    except Exception:
        results = {}
    patches = sorted(glob.glob(os.path.join(HERE, "mutants", "*.patch")))
    for p in patches:
        name = os.path.basename(p)[:-6]
        prop = name.split("-")[0]
        if props and prop not in props:
            continue
        t0 = time.time()
        env = dict(os.environ, VF_NO_EVIDENCE="1")
        r = subprocess.run([os.path.join(HERE, "tools", "with_patch.sh"), p, os.path.join(HERE, "check"), prop, "--tier", "quick"],
                           capture_output=True, text=True, env=env, cwd=HERE)
        sigs = sorted(set(re.findall(r"signature=(\S+)", r.stdout)))
        results[name] = {"property": prop, "exit": r.returncode, "detected": r.returncode == 1, "signatures": sigs[:8],
                         "wall_s": round(time.time() - t0, 1)}
        print("%-45s exit=%d detected=%s %s" % (name, r.returncode, r.returncode == 1, sigs[:3]), flush=True)
        if r.returncode not in (0, 1):
            print(r.stderr[-1500:])
    json.dump(results, open(respath, "w"), indent=1, sort_keys=True)
    with open(os.path.join(HERE, "mutants", "RESULTS.md"), "w") as fh:
        fh.write("# Mutant detection (quick tier, scratch copy of /repo/src with the patch applied)\n\n| mutant | property | detected | signatures | wall s |\n|---|---|---|---|---|\n")
        for name in sorted(results):
            r = results[name]
            fh.write("| %s | %s | %s | %s | %s |\n" % (name, r["property"], "yes" if r["detected"] else "NO (exit %d)" % r["exit"], ", ".join(r["signatures"][:4]), r["wall_s"]))
    return 0


if __name__ == "__main__":
    sys.exit(main())

#!/bin/sh
# usage: tools/seeded_eval.sh <ID> [check args...]
# Confirms a sub-agent's seeded change (in /tmp/seed-<ID>: patch.diff, demo.py, NOTES.md) in a fresh scratch worktree of /repo
# (demo passes without / fails with; unit suite still "11 failed, 930 passed"), stores it under seeded/<ID>/ and runs the
# property's quick check against a patched scratch copy of the current /repo tree.  Prints one RESULT line.
ID="$1"; shift
HERE="$(cd "$(dirname "$0")/.." && pwd)"
SRC="/tmp/${SEED_PREFIX:-seed}-$ID"
W="/tmp/sv-$ID-$$"
[ -f "$SRC/patch.diff" ] && [ -f "$SRC/demo.py" ] || { echo "RESULT $ID missing deliverables"; exit 3; }
mkdir -p "$HERE/seeded/$ID"
SUF="${SEED_SUFFIX:-}"
cp "$SRC/patch.diff" "$HERE/seeded/$ID/patch$SUF.diff"
cp "$SRC/demo.py" "$HERE/seeded/$ID/demo$SUF.py"
[ -f "$SRC/NOTES.md" ] && cp "$SRC/NOTES.md" "$HERE/seeded/$ID/NOTES$SUF.md"
git -C /repo worktree remove --force "$W" >/dev/null 2>&1
git -C /repo worktree add -q "$W" HEAD || exit 3
cp "$SRC/demo.py" "$W/demo.py"
( cd "$W" && PYTHONPATH="$W/src" timeout 600 /venv/bin/python demo.py >/dev/null 2>&1 ); d0=$?
( cd "$W" && git apply "$SRC/patch.diff" ) || { echo "RESULT $ID patch does not apply"; git -C /repo worktree remove --force "$W"; exit 3; }
( cd "$W" && PYTHONPATH="$W/src" timeout 600 /venv/bin/python demo.py > "$W/demo.out" 2>&1 ); d1=$?
suite="skipped"
if [ -z "$NO_SUITE" ]; then
  suite="$( cd "$W" && PYTHONPATH="$W/src" /venv/bin/python -m pytest -q -p no:cacheprovider --timeout=900 tests 2>&1 | tail -1 )"
fi
git -C /repo worktree remove --force "$W"
out="$(VF_NO_EVIDENCE=1 "$HERE/tools/with_patch.sh" "$SRC/patch.diff" "$HERE/check" "$ID" --tier quick "$@" 2>&1)"; rc=$?
sigs="$(printf '%s\n' "$out" | grep -o 'signature=[^ ]*' | sort -u | head -6 | tr '\n' ' ')"
echo "RESULT $ID$SUF demo_without=$d0 demo_with=$d1 suite=[$suite] check_exit=$rc $sigs"

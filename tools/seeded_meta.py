#!/usr/bin/env python3
"""Writes seeded/<ID>/meta.json from the confirmation results (.work/seeded_eval_*.log, produced by tools/seeded_eval.sh) and the
descriptions below (taken from the sub-agents' NOTES.md, which are stored next to the patches)."""
import glob
import json
import os
import re

HERE = os.path.dirname(os.path.dirname(os.path.abspath(__file__)))

DESCR = {
    "C01": ("router.py gn_data_request_guc: the 'lookup still pending' test dropped from the queue-behind-LS condition",
            "GUC requests queued behind a pending location-service lookup, then an unrelated packet of the destination (stores its PV while ls_pending stays set), then another GUC before the LS reply: it overtakes the queued ones (order per destination)"),
    "C02": ("basic_header.py LT.set_value_in_millis: multiplier clamp 63 -> 2**6",
            "requested lifetimes where the finer base saturates ([3.2,4) s, [64,70) s, [640,700) s): multiplier 64 overflows into the reserved octet of the basic header, lifetime 0 on the wire"),
    "C03": ("router.py process_basic_header: NH=ANY falls through to the common-header path instead of raising",
            "an unsecured packet whose basic-header NH nibble is 0 (ANY) is delivered by a router with itsGnSecurity ENABLED; the stack never emits NH=ANY"),
    "C04": ("router.py gn_data_indicate_gbc: area evaluation moved after the location-table / duplicate-list update",
            "a decodable GBC with a zero-sized area from a VALID source raises after its sequence number was recorded; the genuine frame with the same source and sequence number arriving later is dropped as duplicate"),
    "C05": ("sign_service.py notify_inline_p2pcd_request: the own-certificate-requested flag is assigned (any(...)) instead of only raised",
            "late joiner asks for A's certificate; before A's next CAM A verifies a CAM of a bystander whose inline request names only another ticket; A's next CAM within 1 s of its last inclusion is digest-signed"),
    "C06": ("location_table.py check_duplicate_sn: evicts the numerically smallest sequence number instead of the oldest",
            "a full duplicate list spanning the 16-bit wrap (65530..65535,0,1 then 2): SN 0 is evicted, its duplicate two packets later is delivered and forwarded again"),
    "C07": ("router.py gn_geometric_function_f: azimuth rotation skipped when a == b",
            "rectangle with a == b and azimuth not a multiple of 90 degrees, receiver in one of the corner / vertex regions"),
    "C08": ("location_table.py new_gbc_packet: leading refresh_table() removed",
            "beacon/SHB of S, more than itsGnLifetimeLocTE without any processed packet, then the very next packet is a GBC originated by S: the expired entry is reused and S stays a neighbour"),
    "C09": ("certificate.py chain_length_allows_issuing: all(...) -> any(...)",
            "issuer with >= 2 certIssuePermissions entries of mixed budgets ([36: 0], [37: 1]) and an AT{36} signed directly with its key (the issuing API neither produces such an issuer nor issues under it)"),
    "C10": ("cam_transmission_management.py _check_dynamics: 'self._last_cam_speed is not None' -> truthiness",
            "stop-and-go: last CAM sent at exactly 0.0 m/s, then speed rises by more than 0.5 m/s before 4 m / 4 degrees / 1 s: the speed trigger is skipped"),
    "C11": ("cam_transmission_management.py create_position_confidence: only the semi-major axis is clamped to 4094",
            "both epx and epy >= 40.95 m in the same report: the semi-minor value wraps modulo 4096 / reads 'unavailable'"),
    "C12": ("ldm_maintenance.py check_and_delete_time_validity: 'else: break' at the first still-valid container",
            "a long-validity object added before a shorter-validity one, clock past only the second expiry, maintenance, query: the expired object is still returned"),
    "C13": ("dictionary_database.py _filter_data: try/except moved from each statement to the whole and/or expression",
            "Dictionary back-end only, two-statement OR filter whose first statement raises for an object (absent optional container, cam.* path on a DENM, ill-typed reference with <) and whose second is true"),
    "C14": ("ldm_service.py del_data_consumer_its_aid: removes from self.subscriptions while iterating it",
            "one consumer with >= 2 adjacent subscriptions deregisters, the same ITS-AID re-registers before the next attendance pass, then a pass with matching data: the surviving subscription's callback fires"),
    "C15": ("router.py _cbf_timeout: the 'still buffered?' test moved outside the CBF lock",
            "timer thread sees its key buffered, is preempted before taking the lock, a receive thread handles the duplicate completely (pop + cancel), the timer thread resumes and transmits the suppressed packet"),
    "C16": ("dictionary_database.py update(): existence check moved before 'with self._lock'",
            "updater passes the check, a concurrent delete (or GC remove) completes, the updater writes the object back: delete answered SUCCEED but the object is returned again (Reactive maintenance only)"),
    "C17": ("denm_transmission_management.py trigger_denm_messages: the event's sequence number kept in a shared instance attribute",
            "a second emergency-vehicle DEN request starts while an earlier one is still repeating: the earlier event's remaining DENMs carry the newer actionId"),
    "C18": ("vru_clustering.py _update_standalone: leave-notification expiry 'if' -> 'elif' (folded into the join-substate chain)",
            "passive member leaves cluster A and starts joining B within 1 s; more than 1 s later the leave notification of A is still produced and carried into VRU_PASSIVE"),
    "C19": ("dcc_adaptive.py GateKeeper.update_delta: reschedules with T_on_pp / delta_new instead of equation B.2",
            "B.1 clamped at admission (t_on/delta > 1 s or < 25 ms) and a delta update arrives while the gate is closed"),
    "C20": ("basic_header.py LT.get_value_in_seconds: ms // 1000 -> round(ms / 1000)",
            "received packet with the 50 ms base and multiplier 11-19, 30-39 or 51-59: the remaining lifetime reported to the upper layer exceeds the carried one"),
}


DESCR2 = {
    "C01": ("router.py gn_geometric_function_f: azimuth rotation skipped when a == b (same change as round-1 C07, offered against C01)",
            "GBC/GAC to a rotated square (rectangle, a == b, azimuth not a multiple of 90 degrees) with a station in a corner region: inside but no delivery / outside but delivered"),
    "C02": ("service_access_point.py TrafficClass.encode_to_int: SCF and channel-offload bits swapped (decoder untouched)",
            "a traffic class with exactly one of SCF / channel offload set, in any re-encoded common header (source and forwarder)"),
    "C03": ("certificate.py Certificate.verify: the 'version == 3' check removed",
            "certificate-form signer whose certificate has only the (unsigned) version octet altered; it is also learned as a known ticket under a new HashedId8"),
    "C04": ("router.py process_common_header: the RHL > MHL check moved behind the per-type handlers",
            "a frame of a valid source with RHL > MHL (one flipped bit in octet 3): location table and duplicate list already updated and the frame forwarded before it is rejected; the intact frame arriving later is dropped as duplicate"),
    "C05": ("verify_service.py verify: inlineP2pcdRequest / requestedCertificate handled only for psid 36",
            "the certificate request arrives inside a VAM (psid 638) of a station that knows only root and AA"),
    "C06": ("router.py gn_data_indicate_gac: 'new_rhl <= 0' -> 'new_rhl == 0'",
            "GAC received with RHL exactly 0 outside the area: re-emitted with RHL 255"),
    "C07": ("router.py gn_geometric_function_f: a, b = max(a, b), min(a, b)",
            "any area whose b field exceeds its a field"),
    "C08": ("location_table.py update_position_vector: raw .msec comparison instead of the wrap-aware TST order",
            "two packets of one source either side of the 2^32 ms wrap within the entry lifetime"),
    "C09": ("verify_service.py verify: the ticket permission / validity check became the else-arm of the DENM branch",
            "a psid-37 message with certificate signer and generationLocation, signed by a genuine ticket lacking psid 37 or outside its validity"),
    "C10": ("vam_transmission_management.py location_service_callback: generationDeltaTime difference taken on plain ints",
            "report timestamps crossing the 65.536 s wrap after a VAM while the VRU stays below the dynamics triggers: VAM gap of ~65 s"),
    "C11": ("cam_transmission_management.py GenerationDeltaTime.as_timestamp_in_certain_point: wrap fallback with the wrong sign",
            "message generated before and received after a generationDeltaTime wrap: reconstructed time 10 000 ms late"),
    "C12": ("dictionary_database.py insert: next id = max(stored ids) + 1 instead of a monotonic counter",
            "the object holding the highest identifier is deleted or expires before the next add: identifier reused, stale handles hit the new object"),
    "C13": ("ldm_service.py order_search_results: stable sorts applied in forward instead of reverse key order",
            "order tuple with >= 2 keys whose orderings disagree (both back-ends wrong in the same way)"),
    "C14": ("ldm_service.py: multiplicity check moved behind the interval bookkeeping",
            "multiplicity >= 2, interval longer than the attendance period, 1..multiplicity-1 matches when the interval elapses: the interval restarts without a notification"),
    "C15": ("router.py gn_ls_request: 'lookup pending?' read outside _ls_lock",
            "two threads sending GUC to the same unresolved destination, one preempted between its check and the lock: second overwrites the LS buffer, first request lost, two LS requests"),
    "C16": ("ldm_service.py remove_subscription: membership test moved before 'with self._lock'",
            "two threads unsubscribing the same subscription: the loser raises ValueError out of IF.LDM.4"),
    "C17": ("denm_transmission_management.py trigger_denm_messages: for _ in range(T // i)",
            "duration not a multiple of the interval (floor instead of ceil), 0 < T < i gives no DENM at all"),
    "C18": ("vru_clustering.py _process_received_vam: early return after _complete_join",
            "the leader's VAM that admits the joiner also announces break-up: the joiner stays passive in a dissolved cluster while the ex-leader keeps sending individual VAMs"),
    "C19": ("dcc_adaptive.py DccAdaptive.update: early return when delta is saturated and pushed outwards",
            "delta saturated at delta_max (about 200 near-idle evaluations with the defaults), then CBR between 0.28 and 0.68: delta must decay but stays"),
    "C20": ("basic_header.py initialize_with_mib_request_and_rhl: 'is not None' -> truthiness",
            "explicit maximum packet lifetime of exactly 0: sent with the MIB default (60 s)"),
}


DESCR3 = {
    "C01": ("router.py gn_ls_request: the 'entry.ls_pending = True' after ensure_entry removed (ensure_entry sets it on new entries only)",
            "a lookup is abandoned (destination off the air for all retransmissions) and its empty placeholder is not purged; during the next lookup for the same destination every further request replaces the LS buffer: only the last queued request is delivered"),
    "C02": ("router.py GUC and LS-reply forwarders: 'LocT PV newer than the packet's DE PV?' compared on raw .msec",
            "forwarder of a GUC / LS reply whose destination is a neighbour, location-table and packet timestamps on opposite sides of the 2^32 ms wrap: stale or wrongly overwritten DE PV"),
    "C03": ("verify_service.py: cache of verified (signer HashedId8, generationTime) pairs that skips the signature check on a hit",
            "a genuine packet is accepted first; a later forged packet naming the same signer and generationTime is delivered with any payload and signature"),
    "C04": ("cv2x_link_layer.py: stop sentinel None -> b'' in stop() and 'if not data: break' in the callback loop (two cooperating sites)",
            "a one-octet radio frame becomes b'' after stripping and ends the C-V2X callback thread silently"),
    "C05": ("sign_service.py sign_cam: the requestedCertificate header field is added after the to-be-signed bytes were encoded",
            "a peer's inline request names a CA certificate the sender holds: the CAM carrying requestedCertificate is signed over bytes lacking it and every receiver rejects it"),
    "C06": ("router.py GUC and LS-reply forwarders: DE PV refresh test on raw .msec (the same change as round-3 C02)",
            "as C02 round 3: timestamps on opposite sides of the 2^32 ms wrap"),
    "C07": ("router.py gn_data_indicate_gbc: returns None instead of the indication when the forward step reports MAXIMUM_LENGTH_EXCEEDED / UNSPECIFIED",
            "GBC received inside the area with RHL > 1, immediate re-broadcast (SIMPLE forwarding) and link_layer.send() raising for that re-broadcast: the payload is never delivered and later copies are duplicates"),
    "C08": ("location_table.py new_ls_reply_packet: an entry with ls_pending counts as new (is_neighbour reset)",
            "own lookup for S pending, then a beacon/SHB of S, then S's LS reply: S drops out of the neighbours while its entry is alive"),
    "C09": ("certificate.py check_issuer_has_subject_permissions: compares with the issuer's NEEDED permissions (issuing PSIDs + its own appPermissions)",
            "an issuer whose own appPermissions hold a PSID outside its issuing set (AA issues {36,37}, has appPermission 623) and a subject claiming exactly that PSID"),
    "C10": ("cam_transmission_management.py: _should_include_lf no longer forces the LF container for the first CAM and start() no longer resets _last_lf_time_ms (two cooperating sites)",
            "stop() then start() with the first CAM less than 500 ms after the last LF-carrying CAM of the previous activation"),
    "C11": ("cam_transmission_management.py _get_path_history: the longitude delta range guard checks the latitude delta twice",
            "a path-history point whose longitude differs by more than 0.0131072 degrees (antimeridian crossing, GNSS jump) with the latitude delta in range: wrapped deltaLongitude / undecodable CAM / generation stalls"),
    "C12": ("ldm_classes.py TimestampIts.__add__ wraps sums beyond 42 bits + ldm_maintenance.py computes the expiry with that sum (two cooperating sites)",
            "timestamp + validity*1000 > 2^42-1 (validity of ~117 years or the 0xFFFFFFFF 'forever' sentinel) followed by a maintenance run: the object vanishes"),
    "C13": ("dictionary_database.py and tinydb_database.py: both path resolvers switched to Utils.get_nested, which returns None for a missing path (two cooperating sites, back-ends stay identical)",
            "operators != / notlike on an attribute that some stored object of a requested type lacks: those objects are returned"),
    "C14": ("ldm_service.py process_notifications: a subscription without bookkeeping entry counts as 'never notified' instead of 'just subscribed'",
            "subscription A's callback unsubscribes B (ACCEPTED) during an attendance: B is still notified in that attendance"),
    "C15": ("router.py get_sequence_number: the wrap test and reset run after the lock is released",
            "counter at the last value of the cycle (65534 numbers handed out) and a second originator between the release and the reset: two packets with SN 0"),
    "C16": ("ldm_service.py del_data_consumer_its_aid: only the discard stays under the lock, subscriptions are removed afterwards",
            "deregister(aid) preempted after the lock release; another thread re-registers aid and subscribes; the first thread then removes the new subscription"),
    "C17": ("denm_transmission_management.py _next_sequence_number: % 65535 instead of % 65536",
            "65 535 events of one station: event 65535 reuses the action identifier of event 0 (sequence number 65535 never used)"),
    "C18": ("vru_clustering.py _generate_unique_cluster_id returns 0 instead of None when no identifier is free",
            "all candidate identifiers seen in recent cluster VAMs, then try_create_cluster: leader of cluster 0"),
    "C19": ("dcc_adaptive.py step 1: helper returning None for an incomplete pair, chosen with 'or' (a valid global average of 0.0 is falsy)",
            "both global CBR values exactly 0.0 with a non-zero local CBR: the local value is used"),
    "C20": ("basic_header.py: LT multiplier treated as 5 bits in set_value_in_millis and in the decoder (two cooperating sites, own round-trips still work)",
            "lifetimes whose best encoding needs a multiplier 32..63, and received LT octets with such a multiplier"),
}


DESCR4 = {
    "C01": ("router.py gn_data_indicate_gbc passes basic_header.set_rhl(new_rhl) to gn_data_forward_gbc, which decrements again", "a receiver three or more radio hops away with a tight hop limit (k <= h < 2(k-1))"),
    "C02": ("router.py LS request / LS reply common header: flags = 0x80 if itsGnIsMobile else 0 (every Enum member is truthy)", "a STATIONARY station emitting an LS request or reply"),
    "C03": ("certificate.py: memo of (issuer HashedId8, certificate signature value) that skips the ECDSA check on a hit", "a genuine certificate is verified first; a copy with the attacker's public key and the same signature value is then accepted"),
    "C04": ("raw_link_layer.py receive: accept condition merged into 'dst == own or dst == broadcast and src != own'", "a unicast frame to the station whose Ethernet source is the station's own MAC"),
    "C05": ("sign_service.py notify_unknown_at: forces the own certificate only if it went out more than 1 s ago", "two mutually unknown stations inside their 1 s inclusion periods: the request CAM is digest-signed and cannot be verified by the peer it is meant for"),
    "C06": ("router.py _cbf_timeout: buffer guard replaced by an unconditional pop", "a duplicate handled exactly while the CBF timer callback has started (interleaving only)"),
    "C07": ("router.py _compute_area_size_m2: circle and ellipse merged into pi * a * (b or a)", "circular area whose b field is neither 0 nor a: size check against itsGnMaxGeoAreaSize wrong"),
    "C08": ("location_table.py update_with_shb_packet returns early when the PV was not replaced (skips is_neighbour = True)", "S known through a multi-hop packet, then its first SHB / beacon with an equal or older timestamp"),
    "C09": ("certificate.py drops check_corresponding_issuer from verification; certificate_library.py checks the stated digest only", "certificate whose stated issuer digest names a trusted CA while the attached issuer object is the untrusted CA that signed it"),
    "C10": ("cam_transmission_management.py: start() no longer resets _last_cam_time_ms and T_GenCam loses its upper clamp (two cooperating sites)", "stop, more than 1.1 s, start, low dynamics: one CAM then silence for as long as the station was stopped"),
    "C11": ("vru_clustering.py _standalone_operation_container: joinTime loses its max(1, ...) clamp", "a VAM generated in the last quarter second of the 3 s join notification: joinTime 0, encoding fails"),
    "C12": ("dictionary_database.py: remove() by equality only and remove_by_id() via get + remove (two cooperating sites)", "two live objects with field-for-field equal records, delete of the later one removes the earlier"),
    "C13": ("ldm_constants.py _value_contains: str and container branches merged (no str() of the reference)", "like / notlike with a non-string reference on a string-valued attribute"),
    "C14": ("ldm_service.py order_search_results: None-safe sort key replaced by the bare value", "ordered subscription with >= 2 matching objects one of which lacks the order attribute: TypeError out of the attendance"),
    "C15": ("location_table.py get_neighbours iterates loc_t without the lock", "an originator scanning the neighbours while another thread inserts a new station: RuntimeError kills the originating thread"),
    "C16": ("ldm_service.py del_data_provider_its_aid: membership test before the lock", "two racing deregistrations of one provider both acknowledged"),
    "C17": ("denm_transmission_management.py: destination area built once per event (together with the shared position dictionary of the emergency vehicle service)", "overlapping events of one EmergencyVehicleApproachingService instance with different positions"),
    "C18": ("vru_clustering.py _process_received_vam: 'elif bbox and \"circular\" in bbox' -> 'elif \"circular\" in bbox'", "a cluster VAM without the OPTIONAL bounding box raises TypeError, is swallowed, and the whole VAM is ignored"),
    "C19": ("dcc_reactive.py update: steps by the current band only, '<=' on the inclusive lower bound", "CBR bit-exactly on a band's lower threshold while already in that band: the state flaps"),
    "C20": ("router.py process_common_header: the BEACON branch returns before the RHL > MHL check", "a beacon with RHL above its MHL makes its sender a neighbour"),
}

DESCR5 = {
    "C02": ("router.py gn_data_indicate_ls_request: the LS reply's DE PV copied from the request's SO PV instead of the requester's location-table entry",
            "a beacon (or any packet) of the requester with a newer timestamp is processed before a delayed LS request carrying an older SO PV: the reply's DE PV is the stale one (EN 302 636-4-1 10.3.7.3)"),
    "C03": ("certificate.py __verify_issued_certificate: successful issuer-signature checks memoised under (issuer HashedId8, r, s) without the toBeSigned content",
            "a genuine authorization ticket verified first; then a forged ticket re-using its issuer digest and signature bytes with the attacker's own verification key: accepted, stored, later digest-signed forgeries delivered"),
    "C06": ("router.py gn_data_indicate_ls_reply (forwarder): DE PV refresh test on raw .msec (the LS-reply half of the round-4 change)",
            "forwarded LS reply whose destination is a neighbour, location-table and packet timestamps on opposite sides of the 2^32 ms wrap"),
    "C08": ("location_table.py refresh_table: an expired entry with a pending LS lookup is emptied in place instead of replaced; is_neighbour not reset",
            "LS lookup for S pending, beacon/SHB of S processed meanwhile, lifetime passes before the lookup ends, table refreshed: S stays a neighbour with an all-zero PV through any later multi-hop packet"),
    "C11": ("vru_clustering.py _leader_operation_container: lower clamp of breakupTime dropped (max(1, ...) removed)",
            "cluster leader that triggered a break-up generates a VAM in the last 250 ms of the 3 s warning: breakupTime 0 is outside DeltaTimeQuarterSecond (1..255), encoding fails, no VAM"),
    "C13": ("dictionary_database.py _statement_holds: TypeError no longer caught per statement (search() answers () for the whole request)",
            "Dictionary back-end only, OR filter with an ordering operator against a non-orderable reference (string / None) and a second statement that matches: empty result, TinyDB returns the matches"),
    "C19": ("dcc_adaptive.py GateKeeper: update_delta rescales the interval cached at admission instead of the current t_go - t_pg",
            ">= 2 delta updates with different values inside one closed-gate period: the gate opens at a time equation B.2 does not give (duty cycle up to doubled)"),
}


def main():
    res = {}
    for f in sorted(glob.glob(os.path.join(HERE, ".work", "seeded*_eval_*.log"))):
        for line in open(f):
            m = re.match(r"RESULT (C\d\d[2345]?) demo_without=(\d+) demo_with=(\d+) suite=\[(.*?)\] check_exit=(\d+) ?(.*)", line)
            if m:
                res[m.group(1)] = m.groups()
    items = [(pid, "", v) for pid, v in sorted(DESCR.items())] + [(pid, "2", v) for pid, v in sorted(DESCR2.items())] + [(pid, "3", v) for pid, v in sorted(DESCR3.items())] + [(pid, "4", v) for pid, v in sorted(DESCR4.items())] + [(pid, "5", v) for pid, v in sorted(DESCR5.items())]
    import sys
    only = sys.argv[1:]
    for pid, suf, (change, needs) in items:
        if only and suf not in only:
            continue
        d = os.path.join(HERE, "seeded", pid)
        if not os.path.isdir(d):
            continue
        r = res.get(pid + suf)
        meta = {
            "property": pid,
            "change": change,
            "needs": needs,
            "round": int(suf) if suf else 1, "files": {"patch": "patch%s.diff" % suf, "demo": "demo%s.py" % suf, "notes": "NOTES%s.md" % suf},
            "origin": "fresh sub-agent given only the property text%s and a scratch git worktree (/tmp/seed%s-%s); NOTES%s.md is its own report" % (
                " (plus one line naming each earlier change, to be avoided)" if suf in ("2", "3", "4") else "", suf, pid, suf),
            "confirmed_in_scratch_worktree": None if r is None else {
                "demo_exit_without_change": int(r[1]), "demo_exit_with_change": int(r[2]), "unit_suite_with_change": re.sub(r", \d+ warnings.*", "", r[3]),
                "commands": ["git -C /repo worktree add /tmp/sv-%s HEAD" % pid, "PYTHONPATH=/tmp/sv-%s/src /venv/bin/python demo.py  (before / after git apply patch.diff)" % pid,
                             "PYTHONPATH=/tmp/sv-%s/src /venv/bin/python -m pytest -q -p no:cacheprovider --timeout=900 tests" % pid, "git -C /repo worktree remove --force /tmp/sv-%s" % pid],
            },
            "first_check_run": None if r is None else {"command": "tools/with_patch.sh seeded/%s/patch%s.diff ./check %s --tier quick" % (pid, suf, pid), "exit": int(r[4]),
                                                        "signatures": re.findall(r"signature=(\S+)", r[5])},
        }
        prev = {}
        try:
            prev = json.load(open(os.path.join(d, "meta%s.json" % suf)))
        except Exception:
            pass
        if "strengthened" in prev:
            meta["strengthened"] = prev["strengthened"]
        json.dump(meta, open(os.path.join(d, "meta%s.json" % suf), "w"), indent=1)
        print(pid + suf, "ok" if r else "no result yet")


if __name__ == "__main__":
    main()

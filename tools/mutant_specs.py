"""Hand-written realistic mutants used for the sensitivity (decoration) test of every check."""
G = "src/flexstack/geonet/"
SPECS = [
    # ---- C20
    ("C20", "lt-min-63-dropped", G + "basic_header.py", "candidate_multiplier = min(int(value // unit), 63)", "candidate_multiplier = int(value // unit) % 64"),
    ("C20", "lt-50ms-unit-100", G + "basic_header.py", "(LTbase.FIFTY_MILLISECONDS, 50),\n            ):", "(LTbase.FIFTY_MILLISECONDS, 100),\n            ):"),
    ("C20", "guc-hop-limit-unmapped", G + "router.py",
     "        hop_limit = self.mib.itsGnDefaultHopLimit if request.max_hop_limit <= 1 else request.max_hop_limit\n        basic_header = BasicHeader.initialize_with_mib_request_and_rhl(\n            self.mib, request.max_packet_lifetime, hop_limit)\n        # Step 1b: Common Header",
     "        hop_limit = self.mib.itsGnDefaultHopLimit if request.max_hop_limit < 1 else request.max_hop_limit\n        basic_header = BasicHeader.initialize_with_mib_request_and_rhl(\n            self.mib, request.max_packet_lifetime, hop_limit)\n        # Step 1b: Common Header"),
    ("C20", "rhl-gt-mhl-accepted", G + "router.py", "if basic_header.rhl > common_header.mhl:", "if basic_header.rhl > common_header.mhl + 1:"),
    ("C20", "lt-decode-base-swapped", G + "basic_header.py", "        if self.base == LTbase.TEN_SECONDS:\n            return self.multiplier * 10000", "        if self.base == LTbase.TEN_SECONDS:\n            return self.multiplier * 100000"),
    # ---- C02
    ("C02", "pai-shift", G + "position_vector.py", "            | (self.pai << 31)\n", "            | (self.pai << 30)\n"),
    ("C02", "speed-mask-16", G + "position_vector.py", "s = _to_signed((data_as_int >> 16) & 0x7FFF, 15)", "s = _to_signed((data_as_int >> 16) & 0xFFFF, 16)"),
    ("C02", "spv-swap-latlon-symmetric", G + "position_vector.py",
     "            | ((self.latitude & 0xFFFFFFFF) << 32 * 1)\n            | (self.longitude & 0xFFFFFFFF)\n        ).to_bytes(20, byteorder=\"big\")",
     "            | ((self.longitude & 0xFFFFFFFF) << 32 * 1)\n            | (self.latitude & 0xFFFFFFFF)\n        ).to_bytes(20, byteorder=\"big\")"),
    ("C02", "btpb-info-port-swap-symmetric", "src/flexstack/btp/btp_header.py",
     "        return (self.destination_port << 16) | self.destination_port_info",
     "        return (self.destination_port_info << 16) | self.destination_port"),
    ("C02", "pl-excludes-btp", "src/flexstack/btp/router.py", "                length=len(data),\n", "                length=len(request.data),\n", 1),
    ("C02", "lsreply-depv-from-request-tst", G + "router.py", "                    tst=so_lpv.tst,\n                    latitude=so_lpv.latitude,\n                    longitude=so_lpv.longitude,\n                )\n                with self.ego_position_vector_lock:",
     "                    tst=ls_request_header.so_pv.tst,\n                    latitude=so_lpv.longitude,\n                    longitude=so_lpv.latitude,\n                )\n                with self.ego_position_vector_lock:"),
    ("C02", "btpa-ports-swap-symmetric", "src/flexstack/btp/btp_header.py",
     ["        return (self.destination_port << 16) | self.source_port",
      "        destination_port = int.from_bytes(data[0:2], byteorder='big')\n        source_port = int.from_bytes(data[2:4], byteorder='big')"],
     ["        return (self.source_port << 16) | self.destination_port",
      "        source_port = int.from_bytes(data[0:2], byteorder='big')\n        destination_port = int.from_bytes(data[2:4], byteorder='big')"]),
    # ---- C08
    ("C08", "pv-update-ge", G + "location_table.py", "            elif position_vector.tst > self.position_vector.tst:", "            elif position_vector.tst >= self.position_vector.tst:"),
    ("C08", "ahead-of-clock-purged", G + "location_table.py", "                if entry.position_vector.tst > current_time\n                or (current_time", "                if (current_time"),
    ("C08", "tsb-clears-neighbour", G + "location_table.py", "        # Step 5b – set IS_NEIGHBOUR = FALSE only for new entries (NOTE 1: unchanged otherwise)\n        if is_new_entry:\n            self.is_neighbour = False", "        self.is_neighbour = False"),
    ("C08", "tst-gt-boundary", G + "position_vector.py", "                and ((self.msec - __o.msec) <= (2**32) / 2)", "                and ((self.msec - __o.msec) < (2**31) - 1)"),
    ("C08", "dad-noop", G + "router.py", "        if self.mib.itsGnLocalGnAddr == gn_addr:\n            raise DADException", "        if False and self.mib.itsGnLocalGnAddr == gn_addr:\n            raise DADException"),
    ("C08", "lsreply-sets-neighbour", G + "location_table.py", "        # Step 5: update PDR(SO)\n        entry.update_pdr(so_pv, len(packet) + 8 + 4)\n        if is_new_entry:\n            entry.is_neighbour = False", "        # Step 5: update PDR(SO)\n        entry.update_pdr(so_pv, len(packet) + 8 + 4)\n        entry.is_neighbour = True"),
    ("C08", "no-purge-before-reception-guc", G + "location_table.py", "        self.refresh_table()\n        so_pv = guc_extended_header.so_pv", "        so_pv = guc_extended_header.so_pv"),
]

"""Common machinery: violations, partial results, job pool, hypothesis collect-then-shrink,
known findings, evidence and replay files.  See DESIGN.md section 1."""
from __future__ import annotations

import hashlib
import importlib
import json
import os
import re
import sys
import time
import traceback
from collections import Counter

HOME = os.environ.get("VF_HOME") or os.path.dirname(os.path.dirname(os.path.abspath(__file__)))
REPO = os.environ.get("VF_REPO", "/repo")


# ----------------------------------------------------------------------------------------------
# JSON helpers
# ----------------------------------------------------------------------------------------------
def jdump(obj) -> str:
    return json.dumps(obj, sort_keys=True, separators=(",", ":"), default=_default)


def _default(o):
    if isinstance(o, (bytes, bytearray)):
        return {"__hex__": bytes(o).hex()}
    if isinstance(o, (set, frozenset)):
        return sorted(o)
    if isinstance(o, tuple):
        return list(o)
    return repr(o)


def case_hash(case) -> str:
    return hashlib.sha1(jdump(case).encode()).hexdigest()[:16]


def H(b) -> str:
    return bytes(b).hex()


def B(s) -> bytes:
    return bytes.fromhex(s)


# ----------------------------------------------------------------------------------------------
# Violations / outcomes / partial results
# ----------------------------------------------------------------------------------------------
def violation(prop, signature, message, case=None, kind=None, clause=None):
    return {
        "property": prop,
        "signature": signature,
        "message": str(message)[:2000],
        "case": case,
        "kind": kind,
        "clause": clause,
    }


class Outcome:
    """Result of running one case."""

    def __init__(self, violations=None, labels=None, nontrivial=False, excluded=None):
        self.violations = violations or []
        self.labels = labels or []
        self.nontrivial = nontrivial
        self.excluded = excluded or []


class Partial:
    """Mergeable result of a job."""

    def __init__(self):
        self.evaluations = 0
        self.nontrivial = set()      # hashes of distinct non-trivial cases
        self.nontrivial_extra = 0    # counted distinct non-trivial cases (enumerations: by construction)
        self.labels = Counter()
        self.samples = []
        self.violations = []         # violation dicts (at most a few per signature)
        self.sig_counts = Counter()  # signature -> number of failing cases
        self.excluded = Counter()
        self.sub = {}                # sub-check name -> {"evaluations":..,...}
        self.notes = []
        self.exhaustive = None
        self.errors = []             # harness errors (exit 2)

    MAX_PER_SIG = 3

    def add_violation(self, v):
        self.sig_counts[v["signature"]] += 1
        n = sum(1 for x in self.violations if x["signature"] == v["signature"])
        if n < self.MAX_PER_SIG:
            self.violations.append(v)

    def record(self, case, out: Outcome, kind=None, sample_cap=4, hash_case=True):
        self.evaluations += 1
        for lab in out.labels:
            self.labels[lab] += 1
        for e in out.excluded:
            self.excluded[e] += 1
        if out.nontrivial:
            if hash_case:
                self.nontrivial.add(case_hash(case))
            else:
                self.nontrivial_extra += 1
            if sum(1 for s in self.samples if s.get("nontrivial")) < sample_cap:
                self.samples.append({"kind": kind, "nontrivial": True, "case": _shorten(case)})
        elif sum(1 for s in self.samples if not s.get("nontrivial")) < 1:
            self.samples.append({"kind": kind, "nontrivial": False, "case": _shorten(case)})
        for v in out.violations:
            if v.get("case") is None:
                v["case"] = case
            if v.get("kind") is None:
                v["kind"] = kind
            self.add_violation(v)

    def subcount(self, name, **kw):
        d = self.sub.setdefault(name, {})
        for k, val in kw.items():
            if isinstance(val, bool):
                d[k] = val
            elif isinstance(val, (int, float)):
                d[k] = d.get(k, 0) + val
            else:
                d[k] = val

    def merge(self, other: "Partial"):
        self.evaluations += other.evaluations
        self.nontrivial |= other.nontrivial
        self.nontrivial_extra += other.nontrivial_extra
        self.labels.update(other.labels)
        self.excluded.update(other.excluded)
        for s in other.samples:
            if len(self.samples) < 12:
                self.samples.append(s)
        for v in other.violations:
            n = sum(1 for x in self.violations if x["signature"] == v["signature"])
            if n < self.MAX_PER_SIG:
                self.violations.append(v)
        self.sig_counts.update(other.sig_counts)
        for name, d in other.sub.items():
            mine = self.sub.setdefault(name, {})
            for k, val in d.items():
                if isinstance(val, bool):
                    mine[k] = mine.get(k, True) and val
                elif isinstance(val, (int, float)):
                    mine[k] = mine.get(k, 0) + val
                else:
                    mine[k] = val
        self.notes.extend(n for n in other.notes if n not in self.notes)
        self.errors.extend(other.errors)
        return self


def _shorten(obj, maxlen=1500):
    s = jdump(obj)
    if len(s) <= maxlen:
        return json.loads(s)
    return {"truncated_json": s[:maxlen] + "...", "full_length": len(s)}


# ----------------------------------------------------------------------------------------------
# Known findings
# ----------------------------------------------------------------------------------------------
_KF = None


def known_findings():
    global _KF
    if _KF is None:
        path = os.path.join(HOME, "known_findings.json")
        try:
            with open(path) as f:
                data = json.load(f)
        except FileNotFoundError:
            data = {"findings": [], "fixed": []}
        _KF = data
    return _KF


def finding_for(signature):
    for f in known_findings().get("findings", []):
        if f["signature"] == signature:
            return f
    return None


def is_known(signature) -> bool:
    """True when the signature is a recorded (unrepaired) finding: generators use this to steer the
    main campaign away from the trigger class (counted in excluded_known)."""
    return finding_for(signature) is not None


# ----------------------------------------------------------------------------------------------
# Hypothesis driver (collect, then shrink per new signature)
# ----------------------------------------------------------------------------------------------
def hyp_run(strategy, run_case, *, n, seed, kind=None, shrink_budget_s=8.0, part=None, stateful_ok=False, max_shrinks=6):
    """Generate n cases from `strategy`, run each with run_case(case)->Outcome, never stop at the
    first failure.  Afterwards shrink one example per not-yet-known signature."""
    import hypothesis
    from hypothesis import HealthCheck, Phase, given, settings

    part = part if part is not None else Partial()
    first_fail = {}

    common = dict(
        database=None,
        deadline=None,
        derandomize=False,
        report_multiple_bugs=False,
        print_blob=False,
        suppress_health_check=[HealthCheck.too_slow, HealthCheck.data_too_large, HealthCheck.large_base_example],
    )

    @hypothesis.seed(seed)
    @settings(max_examples=n, phases=[Phase.generate], **common)
    @given(strategy)
    def collect(case):
        out = run_case(case)
        part.record(case, out, kind=kind)
        for v in out.violations:
            first_fail.setdefault(v["signature"], case)

    try:
        collect()
    except hypothesis.errors.FailedHealthCheck as e:  # generator problem: harness error
        part.errors.append("health check failed in %s: %s" % (kind, e))
        return part
    except Exception:
        part.errors.append("harness error in %s: %s" % (kind, traceback.format_exc()[-1500:]))
        return part

    # shrink new signatures only (known findings need no replay file)
    shrunk = 0
    for sig, case0 in first_fail.items():
        if is_known(sig):
            continue
        shrunk += 1
        if shrunk > max_shrinks:
            break
        best = [case0, len(jdump(case0))]
        deadline = time.monotonic() + shrink_budget_s

        class _Found(Exception):
            pass

        @hypothesis.seed(seed)
        @settings(max_examples=max(n, 50), phases=[Phase.generate, Phase.shrink], **common)
        @given(strategy)
        def shrinker(case, sig=sig, best=best, deadline=deadline):
            if time.monotonic() > deadline:   # budget only bounds minimality, never the verdict
                return
            out = run_case(case)
            if any(v["signature"] == sig for v in out.violations):
                size = len(jdump(case))
                if size <= best[1]:
                    best[0], best[1] = case, size
                raise _Found()

        try:
            shrinker()
        except BaseException:
            pass
        # replace stored cases for that signature by the minimal one
        out = run_case(best[0])
        msg = next((v for v in out.violations if v["signature"] == sig), None)
        if msg is not None:
            msg = dict(msg)
            msg["case"] = best[0]
            msg["kind"] = kind
            msg["shrunk"] = True
            part.violations = [v for v in part.violations if v["signature"] != sig] + [msg]
    return part


# ----------------------------------------------------------------------------------------------
# Job pool
# ----------------------------------------------------------------------------------------------
def _exec_job(job):
    t0 = time.time()
    try:
        import logging
        logging.disable(logging.CRITICAL)
        if not os.environ.get("VF_INPROC") and not os.environ.get("VF_VERBOSE"):
            sys.stdout = open(os.devnull, "w")      # the repository prints on every discarded packet
        modname, fname = job["fn"].split(":")
        mod = importlib.import_module(modname)
        part = getattr(mod, fname)(**job.get("args", {}))
        if part is None:
            part = Partial()
    except Exception:
        part = Partial()
        part.errors.append("job %s crashed: %s" % (job.get("fn"), traceback.format_exc()[-3000:]))
    part.subcount("job:" + job["fn"].split(":")[1], jobs=1, wall_s=round(time.time() - t0, 3))
    return part


def run_jobs(jobs, workers=None):
    import multiprocessing as mp

    workers = workers or int(os.environ.get("VF_WORKERS", "16"))
    workers = max(1, min(workers, len(jobs)))
    total = Partial()
    if workers == 1 or os.environ.get("VF_INPROC"):
        for j in jobs:
            total.merge(_exec_job(j))
        return total
    ctx = mp.get_context("spawn")
    with ctx.Pool(workers, maxtasksperchild=1) as pool:
        for part in pool.imap_unordered(_exec_job, jobs, chunksize=1):
            total.merge(part)
    return total


# ----------------------------------------------------------------------------------------------
# Finishing: known findings, replay files, evidence, exit code
# ----------------------------------------------------------------------------------------------
def _san(s):
    return re.sub(r"[^A-Za-z0-9_.=+-]+", "_", s)[:80]


def finish(prop_id, tier, seed, total: Partial, *, rule, assumptions, t0, level="exploration",
           exhaustive=None, extra_cov=None, write_evidence=True):
    known_hit = {}
    new = {}
    for v in total.violations:
        f = finding_for(v["signature"])
        if f is not None and f["property"] == prop_id:
            known_hit.setdefault(v["signature"], f)
        else:
            new.setdefault(v["signature"], v)

    lines = []
    for sig, f in sorted(known_hit.items()):
        lines.append("KNOWN-FINDING: property=%s %s [%s] (%d failing case(s) this run)" % (
            prop_id, f["what"], sig, total.sig_counts.get(sig, 0)))
    rdir = os.path.join(HOME, "replays", prop_id)
    vio_records = []
    for sig, v in sorted(new.items()):
        os.makedirs(rdir, exist_ok=True)
        path = os.path.join(rdir, "%s-%s.json" % (_san(sig.split("/", 1)[-1]), case_hash(v.get("case"))))
        with open(path, "w") as fh:
            fh.write(json.dumps(json.loads(jdump(v)), indent=1, sort_keys=True))
        rel = os.path.relpath(path, HOME)
        lines.append("VIOLATION property=%s replay=%s signature=%s :: %s" % (
            prop_id, rel, sig, v["message"][:300].replace("\n", " ")))
        vio_records.append({"signature": sig, "replay": rel, "message": v["message"][:500],
                            "failing_cases": total.sig_counts.get(sig, 0)})

    distinct_nt = len(total.nontrivial) + total.nontrivial_extra
    cov = {
        "evaluations": int(total.evaluations),
        "distinct_nontrivial": int(distinct_nt),
        "rule": rule,
        "samples": total.samples[:10] or [{"note": "no sample recorded"}],
        "labels": dict(total.labels.most_common(60)),
        "excluded_known": dict(total.excluded),
        "subchecks": total.sub,
        "known_findings_confirmed": sorted(known_hit),
        "violations_detail": vio_records,
        "notes": total.notes,
    }
    if exhaustive is not None:
        cov["exhaustive"] = bool(exhaustive)
    if extra_cov:
        cov.update(extra_cov)
    ev = {
        "property_id": prop_id,
        "tier": tier,
        "seed": int(seed),
        "level": level,
        "coverage": cov,
        "assumptions": assumptions,
        "wall_s": round(time.time() - t0, 2),
        "violations": len(new),
    }
    if write_evidence and not os.environ.get("VF_NO_EVIDENCE"):
        os.makedirs(os.path.join(HOME, "evidence"), exist_ok=True)
        with open(os.path.join(HOME, "evidence", prop_id + ".json"), "w") as fh:
            fh.write(json.dumps(json.loads(jdump(ev)), indent=1, sort_keys=True))
    for ln in lines:
        print(ln)
    if total.errors:
        for e in total.errors[:5]:
            print("HARNESS-ERROR property=%s %s" % (prop_id, e), file=sys.stderr)
    print("SUMMARY property=%s tier=%s seed=%s evaluations=%d distinct_nontrivial=%d known=%d violations=%d wall=%.1fs" % (
        prop_id, tier, seed, total.evaluations, distinct_nt, len(known_hit), len(new), time.time() - t0))
    if new:
        return 1
    if total.errors:
        return 2
    return 0

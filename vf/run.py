"""python -m vf.run <ID> [--tier quick|thorough] [--replay FILE]"""
from __future__ import annotations

import argparse
import importlib
import json
import os
import sys
import time

from . import core


def _assert_tree():
    import flexstack

    want = os.path.realpath(os.path.join(core.REPO, "src"))
    got = os.path.realpath(os.path.dirname(flexstack.__file__))
    if not got.startswith(want):
        print("HARNESS-ERROR flexstack imported from %s, expected under %s" % (got, want), file=sys.stderr)
        sys.exit(2)


def main(argv=None):
    ap = argparse.ArgumentParser()
    ap.add_argument("prop")
    ap.add_argument("--tier", default=os.environ.get("VERIF_TIER", "quick"), choices=["quick", "thorough"])
    ap.add_argument("--replay")
    ap.add_argument("--only", help="comma-separated job-name substrings (debugging; evidence not written)")
    args = ap.parse_args(argv)
    try:
        seed = int(os.environ.get("VERIF_SEED", "1") or "1")
    except ValueError:
        seed = 1
    _assert_tree()
    import logging
    logging.disable(logging.CRITICAL)      # the repository logs every packet; warnings would flood stderr
    prop = args.prop.upper()
    try:
        mod = importlib.import_module("vf.props.%s" % prop.lower())
    except ImportError as e:
        print("HARNESS-ERROR cannot import check %s: %r" % (prop, e), file=sys.stderr)
        return 2
    t0 = time.time()

    if args.replay:
        path = args.replay if os.path.isabs(args.replay) else os.path.join(os.getcwd(), args.replay)
        if not os.path.exists(path):
            path = os.path.join(core.HOME, args.replay)
        with open(path) as fh:
            rec = json.load(fh)
        out = mod.replay(rec.get("kind"), rec["case"])
        sigs = [v for v in out.violations if not core.is_known(v["signature"])]
        want = rec.get("signature")
        for v in out.violations:
            tag = "KNOWN-FINDING:" if core.is_known(v["signature"]) else "VIOLATION"
            if tag == "VIOLATION":
                print("VIOLATION property=%s replay=%s signature=%s :: %s" % (
                    prop, args.replay, v["signature"], v["message"][:400]))
            else:
                print("KNOWN-FINDING: property=%s %s" % (prop, v["signature"]))
        if not out.violations:
            print("REPLAY-OK property=%s case no longer violates (recorded signature %s)" % (prop, want))
        return 1 if sigs else 0

    jobs = mod.jobs(args.tier, seed)
    if args.only:
        keys = args.only.split(",")
        jobs = [j for j in jobs if any(k in j["fn"] or k in str(j.get("args", {}).get("name", "")) for k in keys)]
    # committed regression corpus first (seconds-long replay tier)
    total = core.Partial()
    cdir = os.path.join(core.HOME, "corpus", prop)
    if os.path.isdir(cdir):
        n = 0
        for fn in sorted(os.listdir(cdir)):
            if not fn.endswith(".json"):
                continue
            with open(os.path.join(cdir, fn)) as fh:
                rec = json.load(fh)
            try:
                out = mod.replay(rec.get("kind"), rec["case"])
            except Exception as e:  # corpus case no longer loadable = harness problem
                total.errors.append("corpus %s: %r" % (fn, e))
                continue
            total.record(rec["case"], out, kind="corpus:" + str(rec.get("kind")))
            n += 1
        total.subcount("corpus", cases=n)
    total.merge(core.run_jobs(jobs))
    exhaustive = getattr(mod, "EXHAUSTIVE", None)
    if total.exhaustive is not None:
        exhaustive = total.exhaustive
    rc = core.finish(prop, args.tier, seed, total, rule=mod.RULE, assumptions=mod.ASSUMPTIONS, t0=t0,
                     exhaustive=exhaustive, write_evidence=not args.only)
    return rc


if __name__ == "__main__":
    try:
        sys.exit(main())
    except SystemExit:
        raise
    except Exception:
        import traceback

        traceback.print_exc()
        print("HARNESS-ERROR unexpected exception in runner", file=sys.stderr)
        sys.exit(2)

"""Independent reference codec for EN 302 636-4-1 V1.4.1 clause 9 and EN 302 636-5-1 clause 7.

Written from the bit layouts; shares no code with the repository.  All values are plain ints /
bytes / dicts.  Signed fields (lat, lon, speed) are Python ints in their signed range.
"""
from __future__ import annotations

import struct

# ---- enumerations (numbers only) -------------------------------------------------------------
NH_ANY, NH_COMMON, NH_SECURED = 0, 1, 2
CNH_ANY, CNH_BTPA, CNH_BTPB, CNH_IPV6 = 0, 1, 2, 3
HT_ANY, HT_BEACON, HT_GUC, HT_GAC, HT_GBC, HT_TSB, HT_LS = 0, 1, 2, 3, 4, 5, 6
LT_BASE_MS = (50, 1000, 10000, 100000)


def _u(v, bits):
    return v & ((1 << bits) - 1)


def _s(v, bits):
    v &= (1 << bits) - 1
    return v - (1 << bits) if v >> (bits - 1) else v


# ---- lifetime ----------------------------------------------------------------------------------
def lt_decode(code: int) -> int:
    """8-bit LT field -> milliseconds."""
    return (code >> 2) * LT_BASE_MS[code & 3]


def lt_best_ms(ms: int) -> int:
    """Largest representable lifetime not exceeding ms (0 if none)."""
    best = 0
    for base in LT_BASE_MS:
        mult = min(63, ms // base)
        best = max(best, mult * base)
    return best


# ---- basic header ------------------------------------------------------------------------------
def build_basic(version=1, nh=NH_COMMON, reserved=0, lt=0, rhl=1) -> bytes:
    return bytes([(_u(version, 4) << 4) | _u(nh, 4), _u(reserved, 8), _u(lt, 8), _u(rhl, 8)])


def parse_basic(b: bytes) -> dict:
    return {"version": b[0] >> 4, "nh": b[0] & 15, "reserved": b[1], "lt": b[2], "lt_ms": lt_decode(b[2]), "rhl": b[3]}


# ---- common header -----------------------------------------------------------------------------
def build_common(nh=0, ht=0, hst=0, tc=0, flags=0, pl=0, mhl=1, reserved1=0, reserved2=0) -> bytes:
    return bytes([(_u(nh, 4) << 4) | _u(reserved1, 4), (_u(ht, 4) << 4) | _u(hst, 4), _u(tc, 8), _u(flags, 8)]) + \
        struct.pack(">HBB", _u(pl, 16), _u(mhl, 8), _u(reserved2, 8))


def parse_common(b: bytes) -> dict:
    pl, mhl, r2 = struct.unpack(">HBB", b[4:8])
    return {"nh": b[0] >> 4, "reserved1": b[0] & 15, "ht": b[1] >> 4, "hst": b[1] & 15, "tc": b[2],
            "flags": b[3], "mobile": b[3] >> 7, "pl": pl, "mhl": mhl, "reserved2": r2}


# ---- addresses and position vectors ------------------------------------------------------------
def build_addr(m=0, st=0, mid=b"\0" * 6, reserved=0) -> bytes:
    hi = (_u(m, 1) << 15) | (_u(st, 5) << 10) | _u(reserved, 10)
    return struct.pack(">H", hi) + bytes(mid)


def parse_addr(b: bytes) -> dict:
    (hi,) = struct.unpack(">H", b[:2])
    return {"m": hi >> 15, "st": (hi >> 10) & 31, "reserved": hi & 1023, "mid": bytes(b[2:8])}


def build_lpv(addr: bytes, tst=0, lat=0, lon=0, pai=0, speed=0, heading=0) -> bytes:
    return bytes(addr) + struct.pack(">IiiHH", _u(tst, 32), _s(lat, 32), _s(lon, 32),
                                      (_u(pai, 1) << 15) | _u(speed, 15), _u(heading, 16))


def parse_lpv(b: bytes) -> dict:
    tst, lat, lon, ps, h = struct.unpack(">IiiHH", b[8:24])
    return {"addr": bytes(b[:8]), "tst": tst, "lat": lat, "lon": lon, "pai": ps >> 15, "speed": _s(ps, 15), "heading": h}


def build_spv(addr: bytes, tst=0, lat=0, lon=0) -> bytes:
    return bytes(addr) + struct.pack(">Iii", _u(tst, 32), _s(lat, 32), _s(lon, 32))


def parse_spv(b: bytes) -> dict:
    tst, lat, lon = struct.unpack(">Iii", b[8:20])
    return {"addr": bytes(b[:8]), "tst": tst, "lat": lat, "lon": lon}


# ---- extended headers --------------------------------------------------------------------------
def build_gbc_ext(sn, lpv: bytes, lat, lon, a, b, angle, reserved=0, reserved2=0) -> bytes:
    return struct.pack(">HH", _u(sn, 16), _u(reserved, 16)) + lpv + \
        struct.pack(">iiHHHH", _s(lat, 32), _s(lon, 32), _u(a, 16), _u(b, 16), _u(angle, 16), _u(reserved2, 16))


def parse_gbc_ext(b: bytes) -> dict:
    sn, r = struct.unpack(">HH", b[:4])
    lat, lon, a, bb, ang, r2 = struct.unpack(">iiHHHH", b[28:44])
    return {"sn": sn, "reserved": r, "so": parse_lpv(b[4:28]), "lat": lat, "lon": lon, "a": a, "b": bb,
            "angle": ang, "reserved2": r2}


def build_tsb_ext(sn, lpv: bytes, reserved=0) -> bytes:
    return struct.pack(">HH", _u(sn, 16), _u(reserved, 16)) + lpv


def parse_tsb_ext(b: bytes) -> dict:
    sn, r = struct.unpack(">HH", b[:4])
    return {"sn": sn, "reserved": r, "so": parse_lpv(b[4:28])}


def build_guc_ext(sn, lpv: bytes, spv: bytes, reserved=0) -> bytes:
    return struct.pack(">HH", _u(sn, 16), _u(reserved, 16)) + lpv + spv


def parse_guc_ext(b: bytes) -> dict:
    sn, r = struct.unpack(">HH", b[:4])
    return {"sn": sn, "reserved": r, "so": parse_lpv(b[4:28]), "de": parse_spv(b[28:48])}


def build_lsreq_ext(sn, lpv: bytes, req_addr: bytes, reserved=0) -> bytes:
    return struct.pack(">HH", _u(sn, 16), _u(reserved, 16)) + lpv + bytes(req_addr)


def parse_lsreq_ext(b: bytes) -> dict:
    sn, r = struct.unpack(">HH", b[:4])
    return {"sn": sn, "reserved": r, "so": parse_lpv(b[4:28]), "req": bytes(b[28:36])}


build_lsrep_ext = build_guc_ext
parse_lsrep_ext = parse_guc_ext


# ---- BTP ---------------------------------------------------------------------------------------
def build_btp(dest_port, second) -> bytes:
    """BTP-A: second = source port.  BTP-B: second = destination port info."""
    return struct.pack(">HH", _u(dest_port, 16), _u(second, 16))


def parse_btp(b: bytes) -> dict:
    d, s = struct.unpack(">HH", b[:4])
    return {"dest_port": d, "second": s}


# ---- whole packets -----------------------------------------------------------------------------
EXT_LEN = {HT_BEACON: 24, HT_GUC: 48, HT_GAC: 44, HT_GBC: 44, (HT_TSB, 0): 28, (HT_TSB, 1): 28,
           (HT_LS, 0): 36, (HT_LS, 1): 48}


def ext_len(ht, hst):
    if (ht, hst) in EXT_LEN:
        return EXT_LEN[(ht, hst)]
    return EXT_LEN.get(ht)


def parse_packet(pkt: bytes) -> dict:
    """Parse an unsecured GN packet (basic+common+extended+payload).  Raises on short input."""
    out = {"basic": parse_basic(pkt[:4])}
    if out["basic"]["nh"] != NH_COMMON:
        out["rest"] = bytes(pkt[4:])
        return out
    out.update(parse_inner(pkt[4:]))
    return out


def parse_inner(rest: bytes) -> dict:
    """Parse common header + extended header + payload."""
    out = {}
    ch = parse_common(rest[:8])
    out["common"] = ch
    body = rest[8:]
    ht, hst = ch["ht"], ch["hst"]
    if ht == HT_BEACON:
        out["ext"] = {"so": parse_lpv(body[:24])}
        out["payload"] = bytes(body[24:])
    elif ht == HT_TSB and hst == 0:
        out["ext"] = {"so": parse_lpv(body[:24]), "media": bytes(body[24:28])}
        out["payload"] = bytes(body[28:])
    elif ht == HT_TSB:
        out["ext"] = parse_tsb_ext(body[:28])
        out["payload"] = bytes(body[28:])
    elif ht in (HT_GBC, HT_GAC):
        out["ext"] = parse_gbc_ext(body[:44])
        out["payload"] = bytes(body[44:])
    elif ht == HT_GUC:
        out["ext"] = parse_guc_ext(body[:48])
        out["payload"] = bytes(body[48:])
    elif ht == HT_LS and hst == 0:
        out["ext"] = parse_lsreq_ext(body[:36])
        out["payload"] = bytes(body[36:])
    elif ht == HT_LS and hst == 1:
        out["ext"] = parse_lsrep_ext(body[:48])
        out["payload"] = bytes(body[48:])
    else:
        out["ext"] = None
        out["payload"] = bytes(body)
    return out


def build_packet(kind: str, *, so: dict, payload=b"", lt=0x1A, rhl=1, mhl=None, nh=CNH_BTPB, tc=0, mobile=1,
                 sn=0, area=None, de: dict | None = None, req_addr: bytes | None = None, hst=None,
                 version=1, pl=None, bnh=NH_COMMON, flags=None, reserved1=0, reserved2=0, breserved=0) -> bytes:
    """Build a conformant packet.  kind in beacon, shb, tsb, gbc, gac, guc, lsreq, lsrep.
    so/de: dict(addr=8 bytes, tst, lat, lon, pai, speed, heading)."""
    lpv = build_lpv(so["addr"], so.get("tst", 0), so.get("lat", 0), so.get("lon", 0), so.get("pai", 0),
                    so.get("speed", 0), so.get("heading", 0))
    payload = bytes(payload)
    if mhl is None:
        mhl = rhl
    if flags is None:
        flags = (mobile & 1) << 7
    if kind == "beacon":
        ht, h, ext = HT_BEACON, 0, lpv
        nh = CNH_ANY
    elif kind == "shb":
        ht, h, ext = HT_TSB, 0, lpv + b"\0\0\0\0"
    elif kind == "tsb":
        ht, h, ext = HT_TSB, 1, build_tsb_ext(sn, lpv)
    elif kind in ("gbc", "gac"):
        ht = HT_GBC if kind == "gbc" else HT_GAC
        h = area.get("shape", 0)
        ext = build_gbc_ext(sn, lpv, area["lat"], area["lon"], area["a"], area["b"], area.get("angle", 0))
    elif kind == "guc":
        ht, h = HT_GUC, 0
        ext = build_guc_ext(sn, lpv, build_spv(de["addr"], de.get("tst", 0), de.get("lat", 0), de.get("lon", 0)))
    elif kind == "lsreq":
        ht, h = HT_LS, 0
        nh = CNH_ANY
        ext = build_lsreq_ext(sn, lpv, req_addr)
    elif kind == "lsrep":
        ht, h = HT_LS, 1
        nh = CNH_ANY
        ext = build_lsrep_ext(sn, lpv, build_spv(de["addr"], de.get("tst", 0), de.get("lat", 0), de.get("lon", 0)))
    else:
        raise ValueError(kind)
    if hst is not None:
        h = hst
    if pl is None:
        pl = len(payload)
    return build_basic(version, bnh, breserved, lt, rhl) + \
        build_common(nh, ht, h, tc, flags, pl, mhl, reserved1, reserved2) + ext + payload

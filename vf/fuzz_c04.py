"""Coverage-guided stage of C04 (atheris / libFuzzer over the flexstack package).

One iteration = one fresh full station (the one of vf/props/c04.py, real RawLinkLayer.receive loop on a
scripted socket) fed  V0, bad_1..bad_k, V1..V6  where the bad frames are decoded from the fuzzer's bytes and
V0..V6 is a fixed valid stream of two sources.  The oracle is inside the target: the loop must consume every
frame and end through the scripted end of stream, and the snapshot of everything the valid frames cause
(handler invocations, location table entries of the valid sources, LDM objects, clustering state) must equal
the snapshot of the twin station that saw only V0..V6 (computed once).  Failures do not stop the campaign:
each new root-cause signature is appended to a JSONL file together with the input, the campaign goes on.

`decode(data)` and `fuzz_one(data)` are plain Python (no atheris needed): the replay path uses them too."""
from __future__ import annotations

import json
import os
import sys
import threading

VALID_STREAM = [("cam", 0), ("denm", 1), ("denm", 0), ("tsb", 1), ("guc", 0), ("vam", 1), ("lsreq", 0), ("beacon", 1), ("cam", 1)]


class DP:
    """Minimal data provider (front-consuming, deterministic)."""

    def __init__(self, data):
        self.d = bytes(data)
        self.i = 0

    def int(self, lo, hi):
        span = hi - lo + 1
        nbytes = 1 if span <= 256 else 2
        raw = self.d[self.i:self.i + nbytes]
        self.i += nbytes
        return lo + (int.from_bytes(raw, "big") % span if raw else 0)

    def bytes(self, n):
        raw = self.d[self.i:self.i + n]
        self.i += n
        return raw

    def rest(self):
        raw = self.d[self.i:]
        self.i = len(self.d)
        return raw


_STATE = {}


def _setup():
    if _STATE:
        return _STATE
    from .props import c04
    from . import pki
    from .vclock import VClock
    _STATE["c04"] = c04
    _STATE["T0"] = pki.T0
    _STATE["VClock"] = VClock
    return _STATE


def _mods():
    from flexstack.geonet import router as gr, location_table as ltm
    from flexstack.security import sign_service as ss
    import flexstack.facilities.local_dynamic_map.ldm_maintenance as lm
    import flexstack.facilities.local_dynamic_map.ldm_maintenance_reactive as lmr
    import flexstack.facilities.local_dynamic_map.ldm_service_reactive as lsr
    import flexstack.facilities.ca_basic_service.cam_reception_management as crm
    import flexstack.facilities.vru_awareness_service.vam_reception_management as vrm
    return [gr, ltm, ss, lm, lmr, lsr, crm, vrm]


def valid_frames(now):
    c04 = _setup()["c04"]
    out = []
    for j, (kind, src) in enumerate(VALID_STREAM):
        out.append(c04.eth(c04.valid_frame({"kind": kind, "src": src, "n": j + 1}, now), c04.VSRC[src]))
    return out


def decode(data, now):
    """bytes -> (list of (ethernet frame, description), position after which they are inserted)."""
    c04 = _setup()["c04"]
    rc = c04.rc
    dp = DP(data)
    k = 1 + dp.int(0, 2)
    pos = 1 + dp.int(0, 3)
    bads = []
    for _ in range(k):
        mode = dp.int(0, 4)
        if mode == 0:
            n = dp.int(0, 255)
            bads.append((c04.eth(dp.bytes(n), c04.BSRC), "raw"))
        elif mode == 1:
            # overlay fuzzer bytes on a valid packet of the bad source (station id 7099)
            kinds = ["cam", "vam", "denm", "tsb", "guc", "lsreq", "beacon"]
            base = bytearray(c04.valid_frame({"kind": kinds[dp.int(0, len(kinds) - 1)], "src": 2, "n": 5}, now))
            at = dp.int(0, 65535) % max(1, len(base))
            ov = dp.bytes(dp.int(0, 24))
            base[at:at + len(ov)] = ov
            cut = dp.int(0, 3)
            pkt = bytes(base if cut else base[:dp.int(0, 65535) % (len(base) + 1)])
            bads.append((c04.eth(pkt, c04.BSRC), "overlay"))
        elif mode == 2:
            # valid basic + common header of a chosen type, fuzzer bytes as extended header and payload
            ht = dp.int(0, 15)
            hst = dp.int(0, 15)
            nh = dp.int(0, 15)
            body = dp.bytes(dp.int(0, 120))
            pl = dp.int(0, 3)
            plen = [len(body), 0, 65535, max(0, len(body) - 44)][pl]
            pkt = rc.build_basic(1, rc.NH_COMMON, 0, 0x1A, 1 + dp.int(0, 9)) + rc.build_common(nh, ht, hst, 0, 0x80, plen, dp.int(0, 10), 0, 0) + body
            bads.append((c04.eth(pkt, c04.BSRC), "typed"))
        elif mode == 3:
            # certainly malformed twin of a later sequence-numbered valid frame (same source, same SN)
            cands = [j for j, (kd, _) in enumerate(VALID_STREAM) if j >= pos and kd in ("denm", "tsb", "guc", "lsreq")]
            if not cands:
                continue
            j = cands[dp.int(0, len(cands) - 1)]
            kd, src = VALID_STREAM[j]
            what = c04.SHADOW_WHATS[dp.int(0, len(c04.SHADOW_WHATS) - 1)]
            pkt = c04.shadow_frame(c04.valid_frame({"kind": kd, "src": src, "n": j + 1}, now), what, dp.int(0, 65535))
            bads.append((c04.eth(pkt, c04.VSRC[src]), "shadow:" + what))
        else:
            # well-formed GN + BTP to a facility port with a fuzzer payload
            port = [2001, 2002, 2018, 4242][dp.int(0, 3)]
            so = {"addr": rc.build_addr(0, 5, c04.BSRC), "tst": 0, "lat": c04.EGO[0] + 700, "lon": c04.EGO[1] + 700, "pai": 1}
            pay = dp.bytes(dp.int(0, 200))
            if dp.int(0, 1):
                area = {"lat": c04.EGO[0], "lon": c04.EGO[1], "a": 900, "b": 600, "angle": 0, "shape": 0}
                pkt = rc.build_packet("gbc", so=so, sn=dp.int(0, 65535), rhl=2, mhl=2, area=area, payload=rc.build_btp(port, 0) + pay)
            else:
                pkt = rc.build_packet("shb", so=so, payload=rc.build_btp(port, 0) + pay)
            bads.append((c04.eth(pkt, c04.BSRC), "facility"))
    return bads, pos


def _run_station(frames, with_ldm=True):
    st_ = _setup()
    c04 = st_["c04"]
    clock = st_["VClock"](st_["T0"])
    clock.install(_mods())
    died = []
    old_hook = threading.excepthook
    threading.excepthook = lambda args: died.append((args.exc_type.__name__, str(args.exc_value)[:200]))
    try:
        y = c04.FullStation(clock, False, with_ldm, frames)
        ok = y.run()
        snap = y.snapshot()
        foreign = [c for c in y.calls if bytes.fromhex(c[2]) not in c04.VSRC]
        return {"ok": ok, "consumed": y.sock.i, "died": died, "snap": snap, "foreign_calls": len(foreign), "router_calls": y.router_calls}
    finally:
        threading.excepthook = old_hook
        clock.uninstall()


def fuzz_one(data):
    """Returns (violations [(signature, message)], labels, nontrivial, excluded)."""
    st_ = _setup()
    c04 = st_["c04"]
    now = st_["T0"]
    if "valid" not in st_:
        st_["valid"] = valid_frames(now)
        st_["expect"] = _run_station(st_["valid"])["snap"]
    valid = st_["valid"]
    bads, pos = decode(data, now)
    labels = [d for _, d in bads]
    excluded = []
    kept = []
    for f, d in bads:
        # a fuzzer-made frame that names a valid source (outside the shadow generator) could be a perfectly valid frame of it
        if not d.startswith("shadow") and any(m in f[14:] for m in c04.VSRC):
            excluded.append("names-valid-source")
            continue
        kept.append((f, d))
    if not kept:
        return [], labels, False, excluded
    frames = valid[:pos] + [f for f, _ in kept] + valid[pos:]
    r = _run_station(frames)
    vs = []
    descr = ",".join(d for _, d in kept)
    if r["died"]:
        vs.append(("C04/receive-thread-died:%s" % r["died"][0][0], "the receiving thread terminated with %s: %s (bad frames %s)" % (r["died"][0][0], r["died"][0][1], descr)))
    if not r["ok"]:
        vs.append(("C04/receive-loop-hangs", "receive loop did not finish the stream (%d/%d frames consumed)" % (r["consumed"], len(frames))))
    if r["consumed"] != len(frames):
        vs.append(("C04/receive-loop-stopped-early", "%d of %d frames consumed (bad frames %s)" % (r["consumed"], len(frames), descr)))
    exp = st_["expect"]
    for key in exp:
        if key in ("ldm", "app_cams", "cluster_nearby") and r["foreign_calls"]:
            continue        # a decodable facility message of the bad source reached a handler: it may legitimately name any station
        if exp[key] != r["snap"].get(key):
            vs.append(("C04/valid-traffic-processed-differently:%s" % key, "%s differs after bad frames %s: without %s, with %s" % (
                key, descr, str(exp[key])[:300], str(r["snap"].get(key))[:300])))
    reach = any(len(f) >= 14 + 12 and (f[14] >> 4) == 1 and (f[14] & 15) in (1, 2) for f, _ in kept)
    return vs, labels, bool(reach), excluded


def main():
    import atheris
    out_dir = os.environ["VF_FUZZ_OUT"]
    os.makedirs(out_dir, exist_ok=True)
    with atheris.instrument_imports(include=["flexstack"]):
        import flexstack.geonet.router  # noqa: F401
        import flexstack.btp.router  # noqa: F401
        import flexstack.linklayer.raw_link_layer  # noqa: F401
        import flexstack.facilities.ca_basic_service.cam_reception_management  # noqa: F401
        import flexstack.facilities.vru_awareness_service.vam_reception_management  # noqa: F401
        import flexstack.facilities.decentralized_environmental_notification_service.denm_reception_management  # noqa: F401
    import logging
    logging.disable(logging.CRITICAL)
    devnull = open(os.devnull, "w")
    stats = {"runs": 0, "nontrivial": 0, "labels": {}, "excluded": {}, "signatures": {}}
    seen = set()

    def flush():
        with open(os.path.join(out_dir, "stats.json.tmp"), "w") as fh:
            json.dump(stats, fh)
        os.replace(os.path.join(out_dir, "stats.json.tmp"), os.path.join(out_dir, "stats.json"))

    def one(data):
        so = sys.stdout
        sys.stdout = devnull
        try:
            vs, labels, nt, excl = fuzz_one(data)
        finally:
            sys.stdout = so
        stats["runs"] += 1
        stats["nontrivial"] += 1 if nt else 0
        for l in labels:
            stats["labels"][l] = stats["labels"].get(l, 0) + 1
        for e in excl:
            stats["excluded"][e] = stats["excluded"].get(e, 0) + 1
        for sig, msg in vs:
            stats["signatures"][sig] = stats["signatures"].get(sig, 0) + 1
            if sig not in seen:
                seen.add(sig)
                with open(os.path.join(out_dir, "violations.jsonl"), "a") as fh:
                    fh.write(json.dumps({"signature": sig, "message": msg, "data": bytes(data).hex()}) + "\n")
        if stats["runs"] % 200 == 0:
            flush()

    fuzz_one(b"\x00")          # builds the valid stream / the expected snapshot before the campaign starts
    flush()
    atheris.Setup(sys.argv, one)
    atheris.Fuzz()


if __name__ == "__main__":
    main()

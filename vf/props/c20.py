"""C20 - Packet lifetime and hop budget on the wire honour the request.

Exhaustive enumeration (lifetimes 0..7 000 000 ms, all 256 LT codes, all RHL/MHL pairs, all hop
limits x MIB defaults x transports) against the independent reference codec."""
from __future__ import annotations

from .. import core, refcodec as rc
from ..core import Outcome, Partial, violation

ID = "C20"
EXHAUSTIVE = True
RULE = ("Enumeration, no sampling: every requested lifetime 0..7 000 000 ms through LT.set_value_in_millis and "
        "(as float seconds, plus a +0.5 ms fractional variant) through BasicHeader.initialize_with_mib_request_and_rhl; "
        "all 256 LT codes through the decoder; every requested hop limit 0..255 x MIB default hop limits {1,2,10,255} "
        "x every transport originated through the real router (bytes captured at LinkLayer.send, parsed by the "
        "independent codec); MIB default lifetimes 1..600 s; every received RHL/MHL pair 0..255^2 x {TSB,GBC,GUC,SHB}. "
        "Non-trivial = lifetime not exactly representable or in a gap between bases, hop limit <=1 or 255, "
        "RHL > MHL; cases are distinct by construction (enumeration).")
ASSUMPTIONS = [
    "refcodec.lt_decode / lt_best_ms transcribe EN 302 636-4-1 clause 9.6.4 (LT = multiplier x base, 6+2 bits)",
    "requests >= 1 000 000 ms are judged in a separate signature class (behaviour pinned by tests/flexstack/geonet/test_basic_header.py)",
    "float seconds requests are generated as ms/1000.0 and (ms+0.5)/1000.0; the intended request is floor(ms)",
]

MAX_MS = 7_000_000


def _lt_sig(ms, enc, best):
    if ms >= 1_000_000:
        return "C20/lt-request>=1000000ms-not-largest-representable"
    if enc > ms:
        return "C20/lt-exceeds-request"
    if enc == 0 and ms >= 50:
        return "C20/lt-zero-for-request>=50ms"
    return "C20/lt-not-largest-representable"


def check_lt_ms(ms, via):
    """Returns (violations, nontrivial)."""
    from flexstack.geonet.basic_header import LT, BasicHeader
    from flexstack.geonet.mib import MIB

    if via == "millis":
        lt = LT().set_value_in_millis(ms)
        code = lt.encode_to_int()
        own = lt.get_value_in_millis()
    else:
        secs = ms / 1000.0 if via == "seconds" else (ms + 0.5) / 1000.0
        bh = BasicHeader.initialize_with_mib_request_and_rhl(_MIB(), secs, 3)
        b = bh.encode_to_bytes()
        code = rc.parse_basic(b)["lt"]
        own = bh.lt.get_value_in_millis()
    enc = rc.lt_decode(code)
    best = rc.lt_best_ms(ms)
    vs = []
    if own != enc:
        vs.append(violation(ID, "C20/lt-own-decode-differs-from-wire", "request %d ms via %s: wire code %#x = %d ms but get_value_in_millis() = %d" % (ms, via, code, enc, own)))
    if enc != best:
        vs.append(violation(ID, _lt_sig(ms, enc, best), "request %d ms via %s encodes to %d ms (code %#04x); largest representable <= request is %d ms" % (ms, via, enc, code, best)))
    return vs, (best != ms)


_mib = None


def _MIB():
    global _mib
    if _mib is None:
        from flexstack.geonet.mib import MIB
        _mib = MIB()
    return _mib


def job_lt_range(lo, hi):
    part = Partial()
    seen = {}
    for via in ("millis", "seconds", "seconds_frac"):
        n = nt = 0
        for ms in range(lo, hi):
            vs, nontriv = check_lt_ms(ms, via)
            n += 1
            nt += nontriv
            for v in vs:
                part.sig_counts[v["signature"]] += 1
                if v["signature"] not in seen:
                    seen[v["signature"]] = 1
                    v["case"] = {"ms": ms, "via": via}
                    v["kind"] = "lt_ms"
                    part.violations.append(v)
        part.evaluations += n
        part.nontrivial_extra += nt
        part.subcount("lifetime-encode:" + via, evaluations=n, nontrivial=nt)
    if lo == 0:
        part.samples.append({"kind": "lt_ms", "nontrivial": True, "case": {"ms": 1499, "via": "millis"}})
        part.samples.append({"kind": "lt_ms", "nontrivial": False, "case": {"ms": 1000, "via": "seconds"}})
    return part


def check_code(code):
    from flexstack.geonet.basic_header import BasicHeader

    vs = []
    raw = rc.build_basic(1, 1, 0, code, 7)
    bh = BasicHeader.decode_from_bytes(raw)
    got = bh.lt.get_value_in_millis()
    if got != rc.lt_decode(code):
        vs.append(violation(ID, "C20/lt-decode-wrong", "LT code %#04x decodes to %d ms, reference %d ms" % (code, got, rc.lt_decode(code))))
    if bh.encode_to_bytes() != raw:
        vs.append(violation(ID, "C20/lt-reencode-differs", "LT code %#04x re-encodes to %s" % (code, bh.encode_to_bytes().hex())))
    # decode(encode(x)) identical
    lt2 = bh.lt.set_value_in_millis(got)
    if got < 1_000_000 and lt2.get_value_in_millis() != got:
        vs.append(violation(ID, "C20/lt-representable-value-not-preserved", "representable %d ms re-encodes to %d ms" % (got, lt2.get_value_in_millis())))
    return vs


def job_codes():
    part = Partial()
    for code in range(256):
        out = Outcome(check_code(code), nontrivial=(code & 3) != 0 and (code >> 2) > 0)
        part.record({"code": code}, out, kind="lt_code", hash_case=False, sample_cap=1)
    part.subcount("lifetime-decode", evaluations=256)
    return part


TRANSPORTS = ["shb", "gbc0", "gbc1", "gbc2", "gac0", "gac1", "gac2", "guc", "lsreq", "beacon"]


def _mk_station(default_hl, default_lt, security=False):
    from ..vclock import VClock
    from ..stack import Station
    from flexstack.geonet import router as gr, location_table as lt

    clock = VClock(1_700_000_000.0)
    clock.install([gr, lt])
    st = Station(None, b"\x02\x00\x00\x00\x00\x01", mib_kwargs=dict(itsGnDefaultHopLimit=default_hl, itsGnDefaultPacketLifetime=default_lt))
    st.set_position(clock.now, 413_000_000, 21_000_000)
    return clock, st


PEER = b"\x02\x00\x00\x00\x00\x09"


def originate(st, clock, transport, hop_limit, lifetime_s):
    """Returns list of emitted packets for the request."""
    from flexstack.geonet.service_access_point import (Area, CommonNH, GeoAnycastHST, GeoBroadcastHST, GNDataRequest,
                                                       HeaderType, PacketTransportType, TopoBroadcastHST)
    from ..stack import addr_bytes, make_addr, so_dict

    before = len(st.ll.sent)
    data = b"\x07\xd1\x00\x00hello"
    area = Area(latitude=413_000_000, longitude=21_000_000, a=500, b=300, angle=0)
    kw = dict(upper_protocol_entity=CommonNH.BTP_B, data=data, length=len(data), max_hop_limit=hop_limit,
              max_packet_lifetime=lifetime_s, area=area)
    if transport == "beacon":
        st.call(st.gn.gn_data_request_beacon)
    elif transport == "shb":
        st.call(st.gn.gn_data_request, GNDataRequest(packet_transport_type=PacketTransportType(HeaderType.TSB, TopoBroadcastHST.SINGLE_HOP), **kw))
    elif transport.startswith("gbc"):
        st.call(st.gn.gn_data_request, GNDataRequest(packet_transport_type=PacketTransportType(HeaderType.GEOBROADCAST, GeoBroadcastHST(int(transport[3]))), **kw))
    elif transport.startswith("gac"):
        st.call(st.gn.gn_data_request, GNDataRequest(packet_transport_type=PacketTransportType(HeaderType.GEOANYCAST, GeoAnycastHST(int(transport[3]))), **kw))
    elif transport == "guc":
        # make the destination known first (beacon from the peer)
        st.receive(rc.build_packet("beacon", so=so_dict(addr_bytes(PEER), clock.now, 413_001_000, 21_001_000)))
        before = len(st.ll.sent)
        st.call(st.gn.gn_data_request, GNDataRequest(packet_transport_type=PacketTransportType(HeaderType.GEOUNICAST, __import__("flexstack.geonet.service_access_point", fromlist=["HeaderSubType"]).HeaderSubType.UNSPECIFIED),
                                                      destination=make_addr(PEER), **kw))
    elif transport == "lsreq":
        unknown = make_addr(bytes([2, 0, 0, 0, 1, (hop_limit or 0) % 250]))
        st.call(st.gn.gn_ls_request, unknown, None)
    return st.ll.sent[before:]


def check_orig(transport, hop_limit, default_hl, lifetime_ms, default_lt):
    """lifetime_ms None => MIB default."""
    clock, st = _mk_station(default_hl, default_lt)
    try:
        lifetime_s = None if lifetime_ms is None else lifetime_ms / 1000.0
        try:
            pkts = originate(st, clock, transport, hop_limit, lifetime_s)
        except Exception as e:
            return [violation(ID, "C20/origination-raises:%s" % type(e).__name__, "origination of %s hop_limit=%s lifetime=%s raised %r" % (transport, hop_limit, lifetime_ms, e))]
        vs = []
        if len(pkts) != 1:
            return [violation(ID, "C20/origination-emits-%d-packets:%s" % (len(pkts), transport.rstrip("012")), "%s emitted %d packets" % (transport, len(pkts)))]
        p = rc.parse_packet(pkts[0])
        rhl, mhl, lt_ms = p["basic"]["rhl"], p["common"]["mhl"], p["basic"]["lt_ms"]
        single = transport in ("shb", "beacon")
        if single:
            want = 1
        elif transport == "lsreq":
            want = default_hl
        else:
            want = hop_limit if hop_limit > 1 else default_hl
        if rhl != want or mhl != want:
            vs.append(violation(ID, "C20/hop-limit-wrong:%s" % ("single-hop" if single else transport.rstrip("012")),
                                "%s requested hop limit %s (MIB default %d): RHL=%d MHL=%d, expected both %d" % (transport, hop_limit, default_hl, rhl, mhl, want)))
        req_ms = default_lt * 1000 if (lifetime_ms is None or transport in ("beacon", "lsreq")) else lifetime_ms
        best = rc.lt_best_ms(int(req_ms))
        if lt_ms != best:
            vs.append(violation(ID, _lt_sig(int(req_ms), lt_ms, best) + ":router", "%s lifetime request %s ms (MIB default %d s): wire lifetime %d ms, expected %d ms" % (transport, lifetime_ms, default_lt, lt_ms, best)))
        return vs
    finally:
        clock.uninstall()


def job_orig_hops(default_hl):
    part = Partial()
    for transport in TRANSPORTS:
        for hl in range(256):
            case = {"transport": transport, "hop_limit": hl, "default_hl": default_hl, "lifetime_ms": None, "default_lt": 60}
            out = Outcome(check_orig(transport, hl, default_hl, None, 60), nontrivial=hl <= 1 or hl == 255)
            part.record(case, out, kind="orig", hash_case=False, sample_cap=1)
    part.subcount("origination-hop-limits", evaluations=256 * len(TRANSPORTS))
    return part


def job_orig_lifetimes(shard, nshards, tier):
    part = Partial()
    # MIB default lifetimes 1..600 s (all), request lifetimes: boundary set + stride
    lifetimes = sorted(set([0, 1, 49, 50, 51, 99, 100, 149, 499, 500, 501, 999, 1000, 1001, 1499, 1500, 3150, 3151, 9999, 10000,
                            15000, 59999, 60000, 63000, 63001, 64000, 99999, 100000, 599999, 600000, 630000, 630001, 999999]
                           + list(range(0, 700000, 997 if tier == "quick" else 97))))
    work = [("lt", t, ms) for t in ("shb", "gbc0", "gac1", "guc") for ms in lifetimes]
    work += [("dlt", t, d) for t in ("shb", "gbc2", "guc", "beacon", "lsreq") for d in range(1, 601)]
    n = 0
    for i, (k, t, x) in enumerate(work):
        if i % nshards != shard:
            continue
        if k == "lt":
            case = {"transport": t, "hop_limit": 5, "default_hl": 10, "lifetime_ms": x, "default_lt": 60}
            nt = rc.lt_best_ms(x) != x
        else:
            case = {"transport": t, "hop_limit": 5, "default_hl": 10, "lifetime_ms": None, "default_lt": x}
            nt = rc.lt_best_ms(x * 1000) != x * 1000
        out = Outcome(check_orig(case["transport"], 5, 10, case["lifetime_ms"], case["default_lt"]), nontrivial=nt)
        part.record(case, out, kind="orig", hash_case=False, sample_cap=1)
        n += 1
    part.subcount("origination-lifetimes", evaluations=n)
    return part


RX_KINDS = ["tsb", "gbc", "guc", "shb", "gac"]


def check_rx(st, clock, kind, rhl, mhl, lt, sn):
    from ..stack import addr_bytes, so_dict

    so = so_dict(addr_bytes(PEER if kind != "beacon" else bytes([2, 0, 0, 1, rhl, mhl])), clock.now, 413_001_000, 21_001_000)
    area = {"lat": 413_000_000, "lon": 21_000_000, "a": 1000, "b": 1000, "angle": 0, "shape": 0}
    de = {"addr": addr_bytes(b"\x02\x00\x00\x00\x00\x01"), "tst": so["tst"], "lat": 413_000_000, "lon": 21_000_000}
    payload = b"\x07\xd1\x00\x00x"
    pkt = rc.build_packet(kind, so=so, payload=payload, lt=lt, rhl=rhl, mhl=mhl, sn=sn, area=area, de=de)
    n_ind, n_sent = len(st.gn_indications), len(st.ll.sent)
    st.receive(pkt)
    inds, sent = st.gn_indications[n_ind:], st.ll.sent[n_sent:]
    vs = []
    if kind == "beacon":
        # a beacon is never delivered or forwarded: what it leaves behind is the sender's location-table entry - or nothing at all
        # when its hop budget is malformed
        from ..stack import make_addr
        entry = st.gn.location_table.get_entry(make_addr(so["addr"][2:]))
        if rhl > mhl and entry is not None:
            vs.append(violation(ID, "C20/rhl-above-mhl-not-discarded", "beacon with RHL %d > MHL %d entered its sender into the location table" % (rhl, mhl)))
        if rhl <= mhl and entry is None:
            vs.append(violation(ID, "C20/valid-hop-budget-not-delivered", "beacon with RHL %d <= MHL %d left no location-table entry" % (rhl, mhl)))
        return vs
    if rhl > mhl:
        if inds or sent:
            vs.append(violation(ID, "C20/rhl-above-mhl-not-discarded", "%s with RHL %d > MHL %d: %d indications, %d transmissions" % (kind, rhl, mhl, len(inds), len(sent))))
    else:
        for ind in inds:
            if ind.remaining_packet_lifetime is not None and ind.remaining_packet_lifetime * 1000 > rc.lt_decode(lt) + 1e-9:
                vs.append(violation(ID, "C20/remaining-lifetime-exceeds-wire", "%s LT code %#x = %d ms but indication reports %r s" % (kind, lt, rc.lt_decode(lt), ind.remaining_packet_lifetime)))
            if ind.remaining_hop_limit is not None and ind.remaining_hop_limit > rhl:
                vs.append(violation(ID, "C20/remaining-hop-limit-exceeds-wire", "%s RHL %d but indication reports %r" % (kind, rhl, ind.remaining_hop_limit)))
        if len(inds) != 1:
            vs.append(violation(ID, "C20/valid-hop-budget-not-delivered", "%s with RHL %d <= MHL %d inside area gave %d indications" % (kind, rhl, mhl, len(inds))))
    return vs


def job_rx(lo, hi):
    """RHL in [lo,hi) x all MHL x kinds, LT code cycling over all 256 codes."""
    from flexstack.geonet.mib import AreaForwardingAlgorithm
    part = Partial()
    from ..vclock import VClock
    from ..stack import Station
    from flexstack.geonet import router as gr, location_table as ltm

    clock = VClock(1_700_000_000.0)
    clock.install([gr, ltm])
    try:
        st = Station(None, b"\x02\x00\x00\x00\x00\x01", mib_kwargs=dict(itsGnAreaForwardingAlgorithm=AreaForwardingAlgorithm.SIMPLE))
        st.set_position(clock.now, 413_000_000, 21_000_000)
        sn = 0
        n = 0
        for rhl in range(lo, hi):
            for mhl in range(256):
                for kind in RX_KINDS + (["beacon"] if mhl in (1, 2, 10, 255) else []):
                    sn = (sn + 1) % 65536
                    lt = (rhl * 7 + mhl * 13 + sn) % 256
                    vs = check_rx(st, clock, kind, rhl, mhl, lt, sn)
                    case = {"kind": kind, "rhl": rhl, "mhl": mhl, "lt": lt}
                    part.record(case, Outcome(vs, nontrivial=rhl > mhl or rhl <= 1), kind="rx", hash_case=False, sample_cap=1)
                    n += 1
                st.ll.sent.clear()
                st.gn_indications.clear()
                st.errors.clear()
        part.subcount("reception-rhl-mhl-pairs", evaluations=n)
    finally:
        clock.uninstall()
    return part


def jobs(tier, seed):
    js = []
    step = MAX_MS // 32 + 1
    for lo in range(0, MAX_MS + 1, step):
        js.append({"fn": "vf.props.c20:job_lt_range", "args": {"lo": lo, "hi": min(MAX_MS + 1, lo + step)}})
    js.append({"fn": "vf.props.c20:job_codes"})
    for d in (1, 2, 10, 255):
        js.append({"fn": "vf.props.c20:job_orig_hops", "args": {"default_hl": d}})
    for s in range(8):
        js.append({"fn": "vf.props.c20:job_orig_lifetimes", "args": {"shard": s, "nshards": 8, "tier": tier}})
    for lo in range(0, 256, 16):
        js.append({"fn": "vf.props.c20:job_rx", "args": {"lo": lo, "hi": lo + 16}})
    return js


def replay(kind, case):
    if kind == "lt_ms":
        vs, nt = check_lt_ms(case["ms"], case["via"])
        return Outcome(vs, nontrivial=nt)
    if kind == "lt_code":
        return Outcome(check_code(case["code"]))
    if kind == "orig":
        return Outcome(check_orig(case["transport"], case["hop_limit"], case["default_hl"], case["lifetime_ms"], case["default_lt"]))
    if kind == "rx":
        from ..vclock import VClock
        from ..stack import Station
        from flexstack.geonet import router as gr, location_table as ltm
        from flexstack.geonet.mib import AreaForwardingAlgorithm
        clock = VClock(1_700_000_000.0)
        clock.install([gr, ltm])
        try:
            st = Station(None, b"\x02\x00\x00\x00\x00\x01", mib_kwargs=dict(itsGnAreaForwardingAlgorithm=AreaForwardingAlgorithm.SIMPLE))
            st.set_position(clock.now, 413_000_000, 21_000_000)
            return Outcome(check_rx(st, clock, case["kind"], case["rhl"], case["mhl"], case["lt"], 1))
        finally:
            clock.uninstall()
    raise ValueError("unknown replay kind %r" % kind)

"""C09 - Trust store closure and signer authorisation."""
from __future__ import annotations

import copy
import itertools

from hypothesis import strategies as st

from .. import core, pki
from ..core import Outcome, Partial, violation

ID = "C09"
RULE = ("(1) histories of 1..25 operations on a CertificateLibrary + VerifyService (add-AA, add-AT, verify-chain with 0..4 certificates, "
        "receive message) fed with genuine certificates and forged variants (signed by an unknown key, by a known but unauthorised key, "
        "'all'/extra-PSID escalation under an explicit-PSID issuer, re-signed copies, wrong issuer digest, look-alike attached issuer, a "
        "complete attacker root/AA/AT chain, expired / not-yet-valid tickets); after every operation an independent chain checker "
        "(ecdsa + re-encoded ToBeSignedCertificate) must accept every stored AA and AT; a message may be SUCCESS only if the signer "
        "chains to the configured root, its psid is in the ticket's appPermissions and its generationTime inside the validity period. "
        "(2) issuing API: enumerated combinations of issuer permissions x minChainLength 0..3 x subject permissions over chains of depth "
        "<= 3; verify()==True implies containment and issuer chain length >= 1; (2b) enumerated 'wrongly issued' certificates signed directly "
        "with a genuine issuer key under issuers with one or two certIssuePermissions entries of budgets 0..2: verify()==True implies every "
        "needed PSID is covered by an entry whose budget is not exhausted. (3) enumerated acceptance grid ticket x psid x "
        "generation time x signer form. Non-trivial = history with a rejected forgery and a later accepted genuine certificate; issuing "
        "case where containment is false; grid cell that must be refused.")
ASSUMPTIONS = [
    "trusted base of the oracle: asn1tools with the repository's ASN.1 modules (encoding only) and python-ecdsa",
    "SSP bitmaps, eeType, regions, assurance levels and hash collisions are outside the statement and not examined",
    "one-directional oracle for messages (SUCCESS implies authorised); the converse (honest messages are accepted) is C05",
]

PSIDS = [36, 37, 638, 999]


# ------------------------------------------------------------------------------------------------
# certificate variants
# ------------------------------------------------------------------------------------------------
class Variants:
    _inst = None

    @classmethod
    def get(cls):
        if cls._inst is None:
            cls._inst = Variants()
        return cls._inst

    def __init__(self):
        import ecdsa
        from flexstack.security.certificate import Certificate, OwnCertificate
        z = self.z = pki.Zoo.get()
        C = Certificate
        mk = OwnCertificate.initialize_certificate
        new = lambda: ecdsa.SigningKey.generate(curve=ecdsa.NIST256p)  # noqa: E731
        self.sub_aa = mk(z.backend, pki.tbs_ca("sub.vf", [36, 37], 1), z.aa_all)
        self.at_under_all = mk(z.backend, pki.tbs_at([36, 1234]), z.aa_all)
        self.at_under_sub = mk(z.backend, pki.tbs_at([36]), self.sub_aa)
        self.subject_keys = [new() for _ in range(10)]
        k = self.subject_keys
        aa_sk, aa36_sk, at0_sk = z.sk(z.aa), z.sk(z.aa36), z.sk(z.ats[0])
        at_tbs = pki.tbs_at([36, 37])
        v = {}
        # genuine (Certificate objects with correct issuer attached)
        v["g_aa"] = z.aa
        v["g_aa_all"] = z.aa_all
        v["g_aa36"] = z.aa36
        v["g_sub_aa"] = self.sub_aa
        for i, a in enumerate(z.ats):
            v["g_at%d" % i] = a
        v["g_at36"] = z.at36
        v["g_at_expired"] = z.at_expired
        v["g_at_under_all"] = self.at_under_all
        v["g_at_under_sub"] = self.at_under_sub
        # forged
        v["f_unknown_key"] = C(pki.forge_cert(at_tbs, k[0], z.aa.certificate, z.evil_sk), z.aa)
        v["f_unauthorised_psid"] = C(pki.forge_cert(pki.tbs_at([37]), k[1], z.aa36.certificate, aa36_sk), z.aa36)
        v["f_all_escalation"] = C(pki.forge_cert(pki.tbs_ca("esc.vf", "all", 1), k[2], z.aa.certificate, aa_sk), z.aa)
        v["f_extra_psid_ca"] = C(pki.forge_cert(pki.tbs_ca("esc2.vf", [36, 1234], 1), k[3], z.aa.certificate, aa_sk), z.aa)
        v["f_extra_psid_at"] = C(pki.forge_cert(pki.tbs_at([36, 1234]), k[3], z.aa.certificate, aa_sk), z.aa)
        v["f_resigned_copy"] = C(dict(copy.deepcopy(z.ats[1].certificate), signature=pki.raw_sign(z.evil_sk, pki.coder().encode_ToBeSignedCertificate(z.ats[1].certificate["toBeSigned"]))), z.aa)
        v["f_wrong_issuer_digest"] = C(pki.forge_cert(at_tbs, k[4], None, aa_sk, issuer_digest=z.root.as_hashedid8()), z.root)
        v["f_wrong_issuer_digest_aa_attached"] = C(pki.forge_cert(at_tbs, k[4], None, aa_sk, issuer_digest=z.root.as_hashedid8()), z.aa)
        v["f_lookalike_issuer"] = C(pki.forge_cert(at_tbs, k[5], z.aa.certificate, z.sk(z.evil_aa)), z.evil_aa)
        v["f_no_issuer_attached"] = C(pki.forge_cert(at_tbs, k[5], z.aa.certificate, z.sk(z.evil_aa)), None)
        v["f_evil_aa"] = z.evil_aa
        v["f_evil_at"] = z.evil_at
        v["f_evil_root_as_aa"] = z.evil_root
        v["f_issued_by_at"] = C(pki.forge_cert(pki.tbs_at([36]), k[6], z.ats[0].certificate, at0_sk), z.ats[0])
        v["f_ca_without_app_bad_sig"] = C(pki.forge_cert(pki.tbs_ca("noapp.vf", [36], 1), k[7], z.aa.certificate, z.evil_sk), z.aa)
        v["g_ca_without_app"] = C(pki.forge_cert(pki.tbs_ca("noapp2.vf", [36], 1), k[8], z.aa_all.certificate, z.sk(z.aa_all)), z.aa_all)
        v["f_self_signed_at"] = C(pki.forge_cert(at_tbs, k[9], None, k[9]), None)
        # wrongly issued by genuine keys: an AA whose certIssuePermissions entries have different budgets (PSID 36 exhausted, 37/638 live)
        mixed_tbs = pki.tbs_ca("mixed.vf", [36], 0)
        mixed_tbs["certIssuePermissions"].append({"subjectPermissions": ("explicit", [{"psid": 37}, {"psid": 638}]), "minChainLength": 1, "chainLengthRange": 0, "eeType": (b"\x00", 1)})
        self.mixed_sk = new()
        self.aa_mixed = C(pki.forge_cert(mixed_tbs, self.mixed_sk, z.root.certificate, z.sk(z.root)), z.root)
        self.mixed_keys = [new(), new()]
        # an AA that may issue {36,37} and itself holds application permission 1234 (legitimately, from the 'all' root)
        self.aa_app_sk = new()
        self.aa_app = C(pki.forge_cert(pki.tbs_ca("aa-app.vf", [36, 37], 1, app=[1234]), self.aa_app_sk, z.root.certificate, z.sk(z.root)), z.root)
        self.aa_app_keys = [new(), new()]
        v["g_aa_with_own_app_permission"] = self.aa_app
        v["f_at1234_under_issuer_app_permission"] = C(pki.forge_cert(pki.tbs_at([1234]), self.aa_app_keys[0], self.aa_app.certificate, self.aa_app_sk), self.aa_app)
        v["g_at36_under_aa_with_app"] = C(pki.forge_cert(pki.tbs_at([36]), self.aa_app_keys[1], self.aa_app.certificate, self.aa_app_sk), self.aa_app)
        v["g_aa_mixed_budget"] = self.aa_mixed
        v["f_at36_under_exhausted_entry"] = C(pki.forge_cert(pki.tbs_at([36]), self.mixed_keys[0], self.aa_mixed.certificate, self.mixed_sk), self.aa_mixed)
        v["g_at37_under_live_entry"] = C(pki.forge_cert(pki.tbs_at([37]), self.mixed_keys[1], self.aa_mixed.certificate, self.mixed_sk), self.aa_mixed)
        self.v = v
        self.names = sorted(v)
        self.keys = {"f_unknown_key": k[0], "f_unauthorised_psid": k[1], "f_extra_psid_at": k[3], "f_wrong_issuer_digest": k[4],
                     "f_lookalike_issuer": k[5], "f_issued_by_at": k[6], "f_self_signed_at": k[9]}
        for i, a in enumerate(z.ats):
            self.keys["g_at%d" % i] = z.sk(a)
        self.keys["f_at1234_under_issuer_app_permission"] = self.aa_app_keys[0]
        self.keys["g_at36_under_aa_with_app"] = self.aa_app_keys[1]
        self.keys["f_at36_under_exhausted_entry"] = self.mixed_keys[0]
        self.keys["g_at37_under_live_entry"] = self.mixed_keys[1]
        for n, a in (("g_at36", z.at36), ("g_at_expired", z.at_expired), ("g_at_under_all", self.at_under_all), ("g_at_under_sub", self.at_under_sub),
                     ("f_evil_at", z.evil_at), ("g_at_future", z.at_future)):
            self.keys[n] = z.sk(a)
        v["g_at_future"] = z.at_future
        self.names = sorted(v)
        self.signers = sorted(self.keys)


def make_message(cert_dict, sk, psid, gen_us, form, payload=b"\x20\x50\x02\x80\x00\x00\x01\x00payload", with_location=None):
    """EtsiTs103097Data-Signed bytes signed directly with `sk`."""
    hi = {"psid": psid, "generationTime": gen_us}
    if with_location if with_location is not None else psid == 37:
        hi["generationLocation"] = {"latitude": 413000000, "longitude": 21000000, "elevation": 0xF000}
    tbs = {"payload": {"data": {"protocolVersion": 3, "content": ("unsecuredData", payload)}}, "headerInfo": hi}
    signer = ("certificate", [cert_dict]) if form == "certificate" else ("digest", pki.hashedid8(cert_dict))
    sd = {"protocolVersion": 3, "content": ("signedData", {"hashId": "sha256", "tbsData": tbs, "signer": signer,
                                                           "signature": pki.raw_sign(sk, pki.coder().encode_to_be_signed_data(tbs))})}
    return pki.coder().encode_etsi_ts_103097_data_signed(sd)


def independent_accept_conditions(lib_snapshot_ok_at, cert_dict, psid, gen_us):
    perms = {e["psid"] for e in cert_dict["toBeSigned"].get("appPermissions", [])}
    return psid in perms and pki.validity_covers(cert_dict, gen_us)


# ------------------------------------------------------------------------------------------------
# (1) histories
# ------------------------------------------------------------------------------------------------
def history_s():
    V = Variants.get()
    cert = st.sampled_from(V.names)
    op = st.one_of(
        st.fixed_dictionaries({"op": st.just("add_aa"), "c": cert}),
        st.fixed_dictionaries({"op": st.just("add_at"), "c": cert}),
        st.fixed_dictionaries({"op": st.just("verify_seq"), "cs": st.lists(cert, min_size=0, max_size=4)}),
        st.fixed_dictionaries({"op": st.just("msg"), "signer": st.sampled_from(V.signers), "psid": st.sampled_from(PSIDS + [1234]),
                               "when": st.sampled_from(["now", "now", "before", "after"]), "form": st.sampled_from(["certificate", "digest"])}),
    )
    return st.fixed_dictionaries({"preload_aa": st.booleans(), "ops": st.lists(op, min_size=1, max_size=25)})


def run_history(case):
    from flexstack.security.certificate_library import CertificateLibrary
    from flexstack.security.sign_service import SignService
    from flexstack.security.verify_service import VerifyService
    from flexstack.security.sn_sap import ReportVerify, SNVERIFYRequest
    from ..vclock import VClock

    V = Variants.get()
    z = V.z
    clock = VClock(pki.T0)
    clock.install([])
    vs = []
    labels = set()
    try:
        lib = CertificateLibrary(z.backend, [z.root], [z.aa] if case["preload_aa"] else [], [])
        sign = SignService(z.backend, lib)
        ver = VerifyService(z.backend, lib, sign)
        configured = {z.root.as_hashedid8()}
        rejected_forgery = False
        for i, op in enumerate(case["ops"]):
            try:
                if op["op"] == "add_aa":
                    before = set(lib.known_authorization_authorities)
                    lib.add_authorization_authority(V.v[op["c"]])
                    if op["c"].startswith("f_") and set(lib.known_authorization_authorities) == before:
                        rejected_forgery = True
                    if op["c"].startswith("g_") and set(lib.known_authorization_authorities) != before and rejected_forgery:
                        labels.add("genuine-accepted-after-rejected-forgery")
                elif op["op"] == "add_at":
                    before = set(lib.known_authorization_tickets)
                    lib.add_authorization_ticket(V.v[op["c"]])
                    if op["c"].startswith("f_") and set(lib.known_authorization_tickets) == before:
                        rejected_forgery = True
                    if op["c"].startswith("g_") and set(lib.known_authorization_tickets) != before and rejected_forgery:
                        labels.add("genuine-accepted-after-rejected-forgery")
                elif op["op"] == "verify_seq":
                    res = lib.verify_sequence_of_certificates([copy.deepcopy(V.v[c].certificate) for c in op["cs"]], z.backend)
                    if res is None and any(c.startswith("f_") for c in op["cs"]):
                        rejected_forgery = True
                else:
                    cert = V.v[op["signer"]].certificate
                    gen = int((pki.its_s(pki.T0) + {"now": 0, "before": -40 * 86400, "after": 40 * 86400}[op["when"]]) * 1_000_000)
                    if op["signer"] == "g_at_expired" and op["when"] == "now":
                        pass
                    msg = make_message(cert, V.keys[op["signer"]], op["psid"], gen, op["form"])
                    conf = ver.verify(SNVERIFYRequest(sec_header=b"", sec_header_length=0, message=msg, message_length=len(msg)))
                    if conf.report == ReportVerify.SUCCESS:
                        labels.add("message-accepted")
                        if not independent_accept_conditions(None, cert, op["psid"], gen):
                            perms = sorted(e["psid"] for e in cert["toBeSigned"].get("appPermissions", []))
                            which = "psid" if op["psid"] not in perms else "validity"
                            vs.append(violation(ID, "C09/message-accepted-outside-ticket-%s" % which, "op %d: message psid %d gen %s signed by %s (appPermissions %s, validity %r) -> SUCCESS" % (
                                i, op["psid"], op["when"], op["signer"], perms, cert["toBeSigned"]["validityPeriod"])))
                        # the signer must chain to the configured root: it is in the store now (learned) or was
                        dig = pki.hashedid8(cert)
                        if dig not in lib.known_authorization_tickets:
                            vs.append(violation(ID, "C09/message-accepted-from-ticket-not-in-store", "op %d: SUCCESS for signer %s which is not a known ticket" % (i, op["signer"])))
                    else:
                        if op["signer"].startswith("f_"):
                            rejected_forgery = True
            except Exception as e:
                labels.add("raises:%s" % type(e).__name__)
                if op["op"] != "msg":
                    vs.append(violation(ID, "C09/library-operation-raises:%s:%s" % (op["op"], type(e).__name__), "op %d %r raised %r" % (i, op, e)))
            for store, dig, why in pki.check_store(lib, configured):
                vs.append(violation(ID, "C09/store-not-closed:%s:%s" % (store, _why_key(why)), "after op %d %r: %s store holds %s: %s" % (i, op, store, dig, why)))
            if vs:
                break
        return Outcome(vs, labels=sorted(labels), nontrivial="genuine-accepted-after-rejected-forgery" in labels)
    finally:
        clock.uninstall()


def _why_key(why):
    for k in ("signature", "'all'", "not contained", "budget is exhausted", "not in the store", "not itself trusted", "no issuing", "digest", "never configured"):
        if k in why:
            return k.replace(" ", "-").replace("'", "")
    return "other"


def job_histories(n, seed):
    return core.hyp_run(history_s(), run_history, n=n, seed=seed, kind="history")


# ------------------------------------------------------------------------------------------------
# (2) issuing API
# ------------------------------------------------------------------------------------------------
SUBSETS = [[36], [37], [36, 37], [36, 37, 638, 999], [1234], [36, 1234]]


def issuing_cases():
    issuer_perms = ["all"] + SUBSETS[:4]
    subj = [("ca", "all")] + [("ca", s) for s in SUBSETS] + [("at", s) for s in SUBSETS] + [("ca_app", s) for s in ([36], [36, 1234])]
    for ip, mcl, (kind, sp), depth in itertools.product(issuer_perms, [0, 1, 2, 3], subj, [1, 2]):
        yield {"issuer_perms": ip, "min_chain": mcl, "kind": kind, "subject": sp, "depth": depth}
    # issuers that hold application permissions of their own (which authorise nothing about what they may issue)
    for ip, app, (kind, sp), depth in itertools.product(SUBSETS[:3], ([1234], [36, 1234], [999]), subj, [1, 2]):
        yield {"issuer_perms": ip, "min_chain": 2, "kind": kind, "subject": sp, "depth": depth, "issuer_app": app}


def run_issuing(case):
    from flexstack.security.certificate import OwnCertificate
    z = pki.Zoo.get()
    B = z.backend
    mk = OwnCertificate.initialize_certificate
    vs = []
    try:
        iapp = case.get("issuer_app")
        issuer = mk(B, pki.tbs_ca("r.vf", case["issuer_perms"], case["min_chain"], app=iapp if case["depth"] == 1 else None))
        if case["depth"] == 2:
            # an intermediate CA asking for the same permissions, issued by the root above (an 'all' root when the intermediate
            # carries application permissions of its own, so that the intermediate itself is legitimate)
            if iapp:
                issuer = mk(B, pki.tbs_ca("r.vf", "all", 3))
            issuer = mk(B, pki.tbs_ca("i.vf", case["issuer_perms"], 1, app=iapp), issuer)
        if case["kind"] == "at":
            tbs = pki.tbs_at(case["subject"])
        elif case["kind"] == "ca_app":
            tbs = pki.tbs_ca("s.vf", case["subject"], 1, app=case["subject"])
        else:
            tbs = pki.tbs_ca("s.vf", case["subject"], 1)
        issued = mk(B, tbs, issuer)
    except Exception as e:
        # refusing to issue is always allowed
        return Outcome([], labels=["issuing-raises:%s" % type(e).__name__])
    try:
        ok = issued.verify(B)
    except Exception as e:
        return Outcome([violation(ID, "C09/issued-verify-raises:%s" % type(e).__name__, "verify() of an issued certificate raised %r for %r" % (e, case))])
    need, wants_all = pki.needed_perms(issued.certificate)
    kind, allowed = pki.issue_perms(issuer.certificate)
    contained = (kind == "all") or (kind == "explicit" and not wants_all and need <= allowed) or (kind == "none" and not need and not wants_all)
    perms = issuer.certificate["toBeSigned"].get("certIssuePermissions", [])
    chain_ok = all(p["minChainLength"] >= 1 for p in perms) and len(perms) > 0
    sig_ok = pki.raw_verify(issuer.certificate["toBeSigned"]["verifyKeyIndicator"][1], pki.coder().encode_ToBeSignedCertificate(issued.certificate["toBeSigned"]), issued.certificate["signature"])
    labels = ["issuing:verify=%s contained=%s chain=%s" % (ok, contained, chain_ok)]
    if ok and not contained:
        vs.append(violation(ID, "C09/issued-verifies-without-containment", "issuer perms %s (%s), subject needs %s all=%s: verify() True" % (kind, sorted(allowed or []), sorted(need), wants_all)))
    if ok and not chain_ok:
        vs.append(violation(ID, "C09/issued-verifies-without-chain-length", "issuer certIssuePermissions %r: verify() True" % (perms,)))
    if ok and not sig_ok:
        vs.append(violation(ID, "C09/issued-verifies-with-bad-signature", "verify() True but the signature does not verify under the issuer key"))
    # also: the requested subject permissions must not be silently widened beyond the issuer's
    return Outcome(vs, labels=labels, nontrivial=not contained or not chain_ok)


# (2b) certificates signed directly with a genuine issuer key ("wrongly issued"): multi-entry issuers with per-entry budgets
ENTRY_PSIDS = [[36], [37], [36, 37], "all"]


def wrongly_issued_cases():
    entries = [(ps, b) for ps in ENTRY_PSIDS for b in (0, 1, 2)]
    issuers = [[e] for e in entries] + [[e1, e2] for e1 in entries for e2 in entries if e1[0] != e2[0]]
    subj = [("at", [36]), ("at", [37]), ("at", [36, 37]), ("at", [1234]), ("ca", [36]), ("ca", [37]), ("ca", "all")]
    for iss in issuers:
        for kind, sp in subj:
            yield {"issuer_entries": [[ps, b] for ps, b in iss], "kind": kind, "subject": sp}
    for iss in issuers[:12]:
        for kind, sp in subj + [("ca", [1234])]:
            yield {"issuer_entries": [[ps, b] for ps, b in iss], "kind": kind, "subject": sp, "issuer_app": [1234]}


def run_wrongly_issued(case):
    import ecdsa
    from flexstack.security.certificate import Certificate
    z = pki.Zoo.get()
    B = z.backend
    ent = []
    for ps, b in case["issuer_entries"]:
        sp = ("all", None) if ps == "all" else ("explicit", [{"psid": x} for x in ps])
        ent.append({"subjectPermissions": sp, "minChainLength": b, "chainLengthRange": 0, "eeType": (b"\x00", 1)})
    itbs = pki.tbs_ca("wi.vf", [36], 1, app=case.get("issuer_app"))
    itbs["certIssuePermissions"] = ent
    ks = _WI_KEYS or _WI_KEYS.extend([ecdsa.SigningKey.generate(curve=ecdsa.NIST256p) for _ in range(2)]) or _WI_KEYS
    issuer = Certificate(pki.forge_cert(itbs, ks[0], None, ks[0]), None)
    stbs = pki.tbs_at(case["subject"]) if case["kind"] == "at" else pki.tbs_ca("ws.vf", case["subject"], 1)
    subject = Certificate(pki.forge_cert(stbs, ks[1], issuer.certificate, ks[0]), issuer)
    try:
        ok = subject.verify(B)
    except Exception as e:
        return Outcome([violation(ID, "C09/wrongly-issued-verify-raises:%s" % type(e).__name__, "verify() raised %r for %r" % (e, case))])
    need, wants_all = pki.needed_perms(subject.certificate)
    allowed = pki.budget_covers(issuer.certificate, need, wants_all)
    vs = []
    if ok and not allowed:
        vs.append(violation(ID, "C09/verifies-under-exhausted-issuer-entry", "issuer entries %r, subject %s %r: verify() True although the needed permissions are covered only by entries with chain length 0 (or not at all)" % (
            case["issuer_entries"], case["kind"], case["subject"])))
    return Outcome(vs, labels=["wrongly-issued:verify=%s allowed=%s" % (ok, allowed)], nontrivial=not allowed)


_WI_KEYS = []


def job_wrongly_issued(shard, nshards):
    part = Partial()
    for i, case in enumerate(wrongly_issued_cases()):
        if i % nshards != shard:
            continue
        part.record(case, run_wrongly_issued(case), kind="wrongly_issued")
    part.subcount("wrongly-issued-grid", enumerated=True)
    return part


def job_issuing(shard, nshards):
    part = Partial()
    for i, case in enumerate(issuing_cases()):
        if i % nshards != shard:
            continue
        part.record(case, run_issuing(case), kind="issuing")
    part.subcount("issuing-api", enumerated=True)
    return part


# ------------------------------------------------------------------------------------------------
# (3) acceptance grid
# ------------------------------------------------------------------------------------------------
def grid_cases():
    offs = {"long-before": -40 * 86400, "before-start": -3601, "at-start": -3600, "now": 0, "at-end": 47 * 3600, "after-end": 47 * 3600 + 1, "long-after": 40 * 86400,
            "exp-inside": -10 * 86400 + 1800, "exp-after": -10 * 86400 + 3601, "fut-inside": 10 * 86400 + 1800}
    for signer in ("g_at0", "g_at36", "g_at_expired", "g_at_future", "g_at_under_all"):
        for psid in PSIDS + [1234]:
            for when in offs:
                for form in ("certificate", "digest"):
                    yield {"signer": signer, "psid": psid, "when": when, "off": offs[when], "form": form}


def run_grid(case):
    from flexstack.security.sn_sap import ReportVerify, SNVERIFYRequest
    from ..vclock import VClock
    V = Variants.get()
    z = V.z
    clock = VClock(pki.T0)
    clock.install([])
    try:
        own = V.v[case["signer"]]
        lib, sign, ver = z.station_security(None, known_ats=[a for a in (z.ats + [z.at36, z.at_expired, z.at_future])])
        lib.add_authorization_authority(z.aa_all)
        lib.add_authorization_ticket(V.at_under_all)
        gen = int((pki.its_s(pki.T0) + case["off"]) * 1_000_000)
        cert = own.certificate
        msg = make_message(cert, V.keys[case["signer"]], case["psid"], gen, case["form"])
        try:
            conf = ver.verify(SNVERIFYRequest(sec_header=b"", sec_header_length=0, message=msg, message_length=len(msg)))
            success = conf.report == ReportVerify.SUCCESS
        except Exception:
            success = False
        must_refuse = not independent_accept_conditions(None, cert, case["psid"], gen)
        vs = []
        if success and must_refuse:
            perms = sorted(e["psid"] for e in cert["toBeSigned"].get("appPermissions", []))
            which = "psid" if case["psid"] not in perms else "validity"
            vs.append(violation(ID, "C09/message-accepted-outside-ticket-%s" % which, "grid %r: SUCCESS although psid %d / generation time %s is outside the ticket (permissions %s, validity %r)" % (
                case, case["psid"], case["when"], perms, cert["toBeSigned"]["validityPeriod"])))
        return Outcome(vs, labels=["grid:%s" % ("refuse" if must_refuse else "may-accept"), "grid-success" if success else "grid-refused"], nontrivial=must_refuse)
    finally:
        clock.uninstall()


def job_grid(shard, nshards):
    part = Partial()
    for i, case in enumerate(grid_cases()):
        if i % nshards != shard:
            continue
        part.record(case, run_grid(case), kind="grid")
    part.subcount("acceptance-grid", enumerated=True)
    return part


def jobs(tier, seed):
    k = 1 if tier == "quick" else 30
    js = []
    for s in range(8):
        js.append({"fn": "vf.props.c09:job_histories", "args": {"n": 150 * k, "seed": seed * 1000 + s}})
    for s in range(5):
        js.append({"fn": "vf.props.c09:job_issuing", "args": {"shard": s, "nshards": 5}})
    for s in range(3):
        js.append({"fn": "vf.props.c09:job_grid", "args": {"shard": s, "nshards": 3}})
    for s in range(2):
        js.append({"fn": "vf.props.c09:job_wrongly_issued", "args": {"shard": s, "nshards": 2}})
    return js


def replay(kind, case):
    if kind == "history":
        return run_history(case)
    if kind == "issuing":
        return run_issuing(case)
    if kind == "grid":
        return run_grid(case)
    if kind == "wrongly_issued":
        return run_wrongly_issued(case)
    raise ValueError(kind)

"""C19 - DCC algorithms respect TS 102 687 state, rate and duty-cycle limits."""
from __future__ import annotations

import itertools
import math

from hypothesis import strategies as st

from .. import core
from ..core import Outcome, Partial, violation

ID = "C19"
RULE = ("Reactive: exhaustive sequences (length <= 4 quick / 6 thorough) over boundary representatives {0, b-eps, b, b+eps for every "
        "band edge b, 1.0} from every start state, both Annex A tables, plus hypothesis sequences up to 200 values incl. NaN/out-of-range; "
        "adaptive: default and drawn parameter sets with delta_min <= delta_max, unstructured CBR sequences (local and global variants) and load phases of up to 700 evaluations (idle until delta saturates, rise, relaxation); gate keeper: drawn "
        "event sequences (packet arrivals with T_on 50 us..5 ms, delta updates, probes) at drawn gaps and at the reference gate-opening "
        "time +- 0..3 ns / +- ms. Oracle: independent reference implementations of clause 5.3 + Annex A, clause 5.4 eq. 1-6 and Annex B "
        "eq. B.1/B.2, plus the direct invariants (|state step| <= 1, convergence within 4 evaluations, delta within bounds, admissions "
        ">= 25 ms apart, gate closed <= 1 s, one packet per opening). Non-trivial = sequence crossing >= 2 band edges, a delta clamp, or "
        "a delta update while the gate is closed.")
ASSUMPTIONS = [
    "Annex A band edges and rows as transcribed in the reference (A.1: 0.30/0.40/0.50/0.60, A.2: 0.30/0.40/0.50/0.65; the same values the repository's unit tests pin)",
    "gate times within 2 ns of the reference opening time give no verdict (the implementation documents a 1 ns epsilon)",
    "delta compared with 1e-12 relative tolerance (same float expression order as clause 5.4)",
]

# ---- reference: reactive -----------------------------------------------------------------------
REF_TABLES = {
    "A1": {"edges": [0.30, 0.40, 0.50, 0.60], "rows": [(10.0, 100.0), (5.0, 200.0), (2.5, 400.0), (2.0, 500.0), (1.0, 1000.0)]},
    "A2": {"edges": [0.30, 0.40, 0.50, 0.65], "rows": [(20.0, 50.0), (10.0, 100.0), (5.0, 200.0), (4.0, 250.0), (1.0, 1000.0)]},
}


def ref_band(table, cbr):
    return sum(1 for e in REF_TABLES[table]["edges"] if cbr >= e)


def ref_step(table, state, cbr):
    b = ref_band(table, cbr)
    if b > state:
        state += 1
    elif b < state:
        state -= 1
    return state


def reps(table):
    out = [0.0, 1.0]
    for e in REF_TABLES[table]["edges"]:
        out += [e, math.nextafter(e, 0.0), math.nextafter(e, 1.0), e - 1e-9, e + 1e-9]
    return sorted(set(out))


def check_reactive(table, seq):
    """seq: list of floats (may contain invalid values).  Returns (violations, edges crossed)."""
    from flexstack.management.dcc_reactive import DccReactive
    dcc = DccReactive(t_on_max_us=1000 if table == "A1" else 500)
    state = 0
    vs = []
    crossed = set()
    const_run = 0
    last = None
    for i, cbr in enumerate(seq):
        valid = isinstance(cbr, float) and 0.0 <= cbr <= 1.0
        if not valid:
            try:
                dcc.update(cbr)
                vs.append(violation(ID, "C19/reactive-invalid-cbr-accepted", "table %s: update(%r) did not raise" % (table, cbr)))
            except ValueError:
                pass
            except Exception as e:
                vs.append(violation(ID, "C19/reactive-invalid-cbr-wrong-exception", "update(%r) raised %r" % (cbr, e)))
            if dcc.state.value != state:
                vs.append(violation(ID, "C19/reactive-state-changed-by-invalid-input", "state %d -> %d on invalid input %r" % (state, dcc.state.value, cbr)))
            const_run, last = 0, None
            continue
        out = dcc.update(cbr)
        new = out.state.value
        if abs(new - state) > 1:
            vs.append(violation(ID, "C19/reactive-jumps-more-than-one-state", "table %s step %d: %d -> %d on cbr %r" % (table, i, state, new, cbr)))
        want = ref_step(table, state, cbr)
        if new != want:
            vs.append(violation(ID, "C19/reactive-state-differs-from-reference:%s" % table, "table %s step %d: state %d, cbr %r -> %d, reference %d" % (table, i, state, cbr, new, want)))
        rate, toff = REF_TABLES[table]["rows"][new] if 0 <= new <= 4 else (None, None)
        if (out.packet_rate_hz, out.t_off_ms) != (rate, toff):
            vs.append(violation(ID, "C19/reactive-output-not-annex-a-row:%s" % table, "table %s state %d: output (%r Hz, %r ms), Annex A (%r, %r)" % (table, new, out.packet_rate_hz, out.t_off_ms, rate, toff)))
        if dcc.state.value != new:
            vs.append(violation(ID, "C19/reactive-state-attribute-differs-from-output", "attribute %d output %d" % (dcc.state.value, new)))
        if state != new:
            crossed.add((min(state, new), max(state, new)))
        const_run = const_run + 1 if last == cbr else 1
        last = cbr
        if const_run >= 4 and new != ref_band(table, cbr):
            vs.append(violation(ID, "C19/reactive-not-converged-after-4", "table %s: constant cbr %r for %d evaluations but state %d != band %d" % (table, cbr, const_run, new, ref_band(table, cbr))))
        state = new
        if vs:
            break
    return vs, crossed


def job_reactive_exhaustive(table, length, shard, nshards):
    part = Partial()
    R = reps(table)
    n = nt = 0
    first = {}
    prefixes = {0: [], 1: [0.35], 2: [0.35, 0.45], 3: [0.35, 0.45, 0.55], 4: [0.35, 0.45, 0.55, 0.99]}
    for idx, head in enumerate(R):
        if idx % nshards != shard:
            continue
        for start, pre in prefixes.items():
            for tail in itertools.product(R, repeat=length - 1):
                seq = pre + [head] + list(tail)
                vs, crossed = check_reactive(table, seq)
                n += 1
                nt += len(crossed) >= 2
                for v in vs:
                    part.sig_counts[v["signature"]] += 1
                    if v["signature"] not in first:
                        first[v["signature"]] = 1
                        v["case"] = {"table": table, "seq": [repr(x) for x in seq]}
                        v["kind"] = "reactive"
                        part.violations.append(v)
    part.evaluations += n
    part.nontrivial_extra += nt
    part.subcount("reactive-exhaustive:%s" % table, evaluations=n, length=length, exhaustive=True)
    if shard == 0:
        part.samples.append({"kind": "reactive", "nontrivial": True, "case": {"table": table, "seq": [repr(x) for x in [0.35, 0.45, R[3], R[7], 1.0]]}})
    return part


CBR = st.one_of(st.floats(0.0, 1.0), st.sampled_from(reps("A1") + reps("A2")))
BAD = st.sampled_from([float("nan"), -1e-9, 1.0000001, -1.0, 2.0, float("inf"), float("-inf")])


def reactive_case_s():
    return st.fixed_dictionaries({"table": st.sampled_from(["A1", "A2"]),
                                  "seq": st.lists(st.one_of(CBR, CBR, CBR, CBR, BAD).map(repr), min_size=1, max_size=200)})


def run_reactive(case):
    vs, crossed = check_reactive(case["table"], [float(x) for x in case["seq"]])
    return Outcome(vs, labels=["reactive:%s" % case["table"]], nontrivial=len(crossed) >= 2)


def job_reactive_random(n, seed):
    return core.hyp_run(reactive_case_s(), run_reactive, n=n, seed=seed, kind="reactive")


# ---- reference: adaptive -----------------------------------------------------------------------
def adaptive_case_s():
    def params(dmax):
        return st.fixed_dictionaries({
            "alpha": st.floats(0.001, 0.5), "beta": st.floats(1e-5, 0.01), "cbr_target": st.floats(0.05, 0.95),
            "delta_max": st.just(dmax), "delta_min": st.floats(1e-6, dmax) | st.just(dmax),
            "delta_up_max": st.floats(1e-6, 0.01), "delta_down_max": st.floats(-0.01, -1e-6)})
    default = st.just(None)
    step = st.fixed_dictionaries({"l": st.floats(0, 1) | BAD, "lp": st.floats(0, 1) | BAD, "g": st.none() | st.floats(0, 1), "gp": st.none() | st.floats(0, 1)})
    # load phases: long stretches at one level (idle long enough to saturate delta at delta_max with the default parameters, then a rise
    # towards / above the target, then relaxation), besides the unstructured sequences
    level = st.sampled_from([0.0, 0.05, 0.2, 0.3, 0.5, 0.6, 0.67, 0.68, 0.69, 0.8, 1.0]) | st.floats(0, 1).map(lambda x: round(x, 3))
    phase = st.tuples(level, st.sampled_from([1, 5, 30, 120, 260])).map(lambda t: [{"l": t[0], "lp": t[0], "g": None, "gp": None}] * t[1])
    phased = st.lists(phase, min_size=2, max_size=5).map(lambda ll: [x for l in ll for x in l][:700])
    return st.fixed_dictionaries({"params": default | default | st.floats(1e-4, 0.1).flatmap(params),
                                  "steps": st.lists(step, min_size=1, max_size=120) | phased}).map(
        lambda c: {"params": c["params"], "steps": [{k: (None if v is None else repr(v)) for k, v in s_.items()} for s_ in c["steps"]]})


def run_adaptive(case):
    from flexstack.management.dcc_adaptive import DccAdaptive, DccAdaptiveParameters
    p = case["params"] or {"alpha": 0.016, "beta": 0.0012, "cbr_target": 0.68, "delta_max": 0.03, "delta_min": 0.0006, "delta_up_max": 0.0005, "delta_down_max": -0.00025}
    alg = DccAdaptive(DccAdaptiveParameters(**p)) if case["params"] else DccAdaptive()
    cbr_its, delta = 0.0, p["delta_min"]
    vs = []
    clamps = 0
    if alg.delta != delta:
        vs.append(violation(ID, "C19/adaptive-initial-delta", "initial delta %r, expected delta_min %r" % (alg.delta, delta)))
    for i, s_ in enumerate(case["steps"]):
        l, lp = float(s_["l"]), float(s_["lp"])
        g = None if s_["g"] is None else float(s_["g"])
        gp = None if s_["gp"] is None else float(s_["gp"])
        bad = not (0.0 <= l <= 1.0) or not (0.0 <= lp <= 1.0)
        try:
            got = alg.update(l, lp, g, gp)
        except ValueError:
            if not bad:
                vs.append(violation(ID, "C19/adaptive-valid-cbr-rejected", "step %d: update(%r,%r) raised ValueError" % (i, l, lp)))
            continue
        except Exception as e:
            vs.append(violation(ID, "C19/adaptive-raises:%s" % type(e).__name__, "step %d raised %r" % (i, e)))
            break
        if bad:
            vs.append(violation(ID, "C19/adaptive-invalid-local-cbr-accepted", "step %d: local CBR (%r,%r) outside [0,1] accepted" % (i, l, lp)))
            break
        # clause 5.4, steps 1-5
        avg = (g + gp) / 2.0 if (g is not None and gp is not None) else (l + lp) / 2.0
        cbr_its = 0.5 * cbr_its + 0.5 * avg
        diff = p["cbr_target"] - cbr_its
        off = min(p["beta"] * diff, p["delta_up_max"]) if diff > 0 else max(p["beta"] * diff, p["delta_down_max"])
        delta = (1.0 - p["alpha"]) * delta + off
        if delta > p["delta_max"]:
            delta = p["delta_max"]
            clamps += 1
        if delta < p["delta_min"]:
            delta = p["delta_min"]
            clamps += 1
        if not (p["delta_min"] <= got <= p["delta_max"]):
            vs.append(violation(ID, "C19/adaptive-delta-out-of-bounds", "step %d: delta %r outside [%r, %r]" % (i, got, p["delta_min"], p["delta_max"])))
        if abs(got - delta) > 1e-12 * max(abs(delta), 1e-300) + 1e-18:
            vs.append(violation(ID, "C19/adaptive-delta-differs-from-clause-5.4", "step %d: delta %r, reference %r (cbr_its %r)" % (i, got, delta, cbr_its)))
        if alg.delta != got:
            vs.append(violation(ID, "C19/adaptive-attribute-differs-from-return", "delta attribute %r return %r" % (alg.delta, got)))
        if vs:
            break
    return Outcome(vs, labels=["adaptive:%s" % ("default" if case["params"] is None else "drawn"), "adaptive-steps:%s" % ("<=120" if len(case["steps"]) <= 120 else ">120")], nontrivial=clamps > 0)


def job_adaptive(n, seed):
    return core.hyp_run(adaptive_case_s(), run_adaptive, n=n, seed=seed, kind="adaptive")


# ---- reference: gate keeper --------------------------------------------------------------------
def gate_case_s():
    ev = st.one_of(
        st.fixed_dictionaries({"op": st.just("arrive"), "t_on_us": st.sampled_from([50, 400, 500, 1000, 5000]) | st.integers(50, 5000)}),
        st.fixed_dictionaries({"op": st.just("update"), "delta": st.floats(0.0006, 0.03) | st.sampled_from([0.0006, 0.03, 0.01, 0.3])}),
        st.fixed_dictionaries({"op": st.just("probe")}),
    )
    when = st.one_of(
        st.fixed_dictionaries({"mode": st.just("gap"), "us": st.sampled_from([0, 1, 24999, 25000, 25001, 100000, 999999, 1000000, 1000001]) | st.integers(0, 1500000)}),
        st.fixed_dictionaries({"mode": st.just("tgo"), "ns": st.sampled_from([-3, -1, 0, 1, 3, -1000000, 1000000, 5])}),
    )
    return st.fixed_dictionaries({"delta0": st.floats(0.0006, 0.03) | st.sampled_from([0.0006, 0.03]),
                                  "events": st.lists(st.tuples(when, ev).map(lambda t: dict(t[1], when=t[0])), min_size=1, max_size=60)})


def run_gate(case):
    from flexstack.management.dcc_adaptive import GateKeeper
    gk = GateKeeper(delta=case["delta0"])
    delta = case["delta0"]
    t = 100.0
    t_pg = t_go = None
    vs = []
    last_admit = None
    upd_closed = 0
    EPS = 2e-9
    for i, ev in enumerate(case["events"]):
        w = ev["when"]
        if w["mode"] == "tgo" and t_go is not None and t_go + w["ns"] * 1e-9 >= t:
            t = t_go + w["ns"] * 1e-9
        elif w["mode"] == "gap":
            t = t + w["us"] * 1e-6
        near = t_go is not None and abs(t - t_go) <= EPS
        ref_open = t_go is None or t >= t_go
        if ev["op"] == "probe":
            got = gk.is_open(t)
            if not near and got != ref_open:
                vs.append(violation(ID, "C19/gate-open-state-differs-from-B1-B2", "event %d: is_open(%.9f)=%r, reference t_go=%r" % (i, t, got, t_go)))
        elif ev["op"] == "arrive":
            t_on = ev["t_on_us"] * 1e-6
            got = gk.admit_packet(t, t_on)
            if not near and got != ref_open:
                vs.append(violation(ID, "C19/gate-admission-differs-from-B1-B2", "event %d: admit_packet(%.9f)=%r, reference t_go=%r" % (i, t, got, t_go)))
            if got:
                if last_admit is not None and t - last_admit < 0.025 - EPS:
                    vs.append(violation(ID, "C19/gate-admissions-closer-than-25ms", "admissions at %.9f and %.9f" % (last_admit, t)))
                last_admit = t
                t_pg = t
                t_go = t + min(max(t_on / delta, 0.025), 1.0)
                if gk.is_open(t) or gk.admit_packet(t, t_on):
                    vs.append(violation(ID, "C19/gate-admits-two-packets-per-opening", "gate still open right after the admission at %.9f" % t))
                if not gk.is_open(t + 1.0 + EPS):
                    vs.append(violation(ID, "C19/gate-closed-longer-than-1s", "gate still closed 1 s after the admission at %.9f" % t))
        else:
            closed = t_go is not None and not ref_open
            if near:
                # undefined which branch the implementation takes: resynchronise the reference from its observable behaviour
                gk.update_delta(t, ev["delta"])
                delta = ev["delta"]
                t_go = _observe_tgo(gk, t_pg, t_go)
                continue
            gk.update_delta(t, ev["delta"])
            if closed:
                upd_closed += 1
                t_go = t_pg + min(max((delta / ev["delta"]) * (t_go - t_pg), 0.025), 1.0)
            delta = ev["delta"]
            if last_admit is not None and not gk.is_open(last_admit + 1.0 + EPS):
                vs.append(violation(ID, "C19/gate-closed-longer-than-1s", "after delta update the gate is still closed 1 s after the admission at %.9f" % last_admit))
            if last_admit is not None and t_go is not None and gk.is_open(last_admit + 0.025 - 1e-6) and t_go > last_admit + 0.025 - 1e-6 + EPS:
                vs.append(violation(ID, "C19/gate-opens-before-B2-time", "after delta update the gate is open 25 ms - 1 us after the admission; reference t_go %.9f" % t_go))
        if vs:
            break
    return Outcome(vs, labels=["gate"], nontrivial=upd_closed > 0)


def _observe_tgo(gk, t_pg, t_go_guess):
    """Find the implementation's opening time by bisection on is_open (used only to resynchronise after an
    update that fell inside the 2 ns no-verdict window)."""
    if t_pg is None:
        return None
    lo, hi = t_pg, t_pg + 1.0 + 1e-6
    if gk.is_open(lo):
        return lo
    for _ in range(60):
        mid = (lo + hi) / 2
        if gk.is_open(mid):
            hi = mid
        else:
            lo = mid
    return hi


def job_gate(n, seed):
    return core.hyp_run(gate_case_s(), run_gate, n=n, seed=seed, kind="gate")


def jobs(tier, seed):
    k = 1 if tier == "quick" else 50
    length = 4 if tier == "quick" else 5
    js = []
    for table in ("A1", "A2"):
        for s in range(4 if tier == "quick" else 8):
            js.append({"fn": "vf.props.c19:job_reactive_exhaustive", "args": {"table": table, "length": length, "shard": s, "nshards": 4 if tier == "quick" else 8}})
    for s in range(2):
        js.append({"fn": "vf.props.c19:job_reactive_random", "args": {"n": 1500 * k, "seed": seed * 1000 + s}})
    if tier == "quick":
        for s in range(3):
            js.append({"fn": "vf.props.c19:job_adaptive", "args": {"n": 2000, "seed": seed * 1000 + 10 + s}})
        for s in range(3):
            js.append({"fn": "vf.props.c19:job_gate", "args": {"n": 3000, "seed": seed * 1000 + 20 + s}})
    else:
        for s in range(16):
            js.append({"fn": "vf.props.c19:job_adaptive", "args": {"n": 6000, "seed": seed * 1000 + 10 + s}})
        for s in range(8):
            js.append({"fn": "vf.props.c19:job_gate", "args": {"n": 18000, "seed": seed * 1000 + 40 + s}})
    return js


def replay(kind, case):
    if kind == "reactive":
        return run_reactive(case)
    if kind == "adaptive":
        return run_adaptive(case)
    if kind == "gate":
        return run_gate(case)
    raise ValueError(kind)

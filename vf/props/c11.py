"""C11 - Facility messages faithfully encode the sensor input they were built from."""
from __future__ import annotations

import math

from hypothesis import strategies as st

from .. import core, fac
from ..core import Outcome, Partial, violation

ID = "C11"
RULE = ("TPV reports drawn over the GNSS range (lat +-90, lon +-180, altHAE -1000..10000 m, speed 0..200 m/s, track 0..360 incl. 360.0, "
        "epx/epy/epv/epd log-uniform 0..500 plus the boundaries of every confidence class, every subset of optional keys, timestamps with "
        "ms fractions placed around generationDeltaTime wraps) are fed to the real CA basic service (virtual timers), VRU awareness service "
        "(all clustering states: stand-alone, leader with cluster information container, join / leave / break-up operation containers) and "
        "DEN service (emergency-vehicle and collision-risk requests); the payload of every recorded BTPDataRequest must decode with the "
        "repository coder, re-encode identically, stay inside the CDD constraints (own table) and equal an independent mapping of the report "
        "(in range: within one unit; out of range: outOfRange code; missing: unavailable code); every report must yield a message. Receiver "
        "side: generationDeltaTime -> absolute time for every age in [0, 65 s). Non-trivial = report with an out-of-range or missing "
        "optional field, a negative coordinate, or a cluster container.")
ASSUMPTIONS = [
    "rounding direction is free: truncation and nearest both pass (|decoded x unit - measured| < 1 unit)",
    "the report's 'time' key is always present (a TPV without time carries no fix)",
    "confidence classes: the encoded class bound must be >= the error estimate and at most one class above the tightest one",
    "ellipse orientation is not judged; the two semi-axis values must be the encodings of {epx, epy} (major = the larger one for CAM)",
]

ALT_CLASSES = [0.01, 0.02, 0.05, 0.1, 0.2, 0.5, 1, 2, 5, 10, 20, 50, 100, 200]
ALT_NAMES = ["alt-000-01", "alt-000-02", "alt-000-05", "alt-000-10", "alt-000-20", "alt-000-50", "alt-001-00", "alt-002-00", "alt-005-00",
             "alt-010-00", "alt-020-00", "alt-050-00", "alt-100-00", "alt-200-00"]


def _err():
    bounds = [0.0, 0.005, 0.01, 0.05, 0.09, 0.1, 0.11, 0.5, 1.0, 12.4, 12.5, 12.6, 40.93, 40.94, 40.95, 41.0, 100.0, 200.0, 200.1, 500.0] + ALT_CLASSES
    return st.one_of(st.sampled_from(bounds), st.floats(math.log(0.001), math.log(500.0)).map(lambda x: round(math.exp(x), 4)))


def report_s():
    fields = {
        "lat": st.one_of(st.sampled_from([0.0, 90.0, -90.0, 41.3, -33.7, 1e-7, -1e-7]), st.floats(-90, 90).map(lambda x: round(x, 7))),
        "lon": st.one_of(st.sampled_from([0.0, 180.0, -180.0, 2.1, -70.7]), st.floats(-180, 180).map(lambda x: round(x, 7))),
        "altHAE": st.one_of(st.sampled_from([-1000.0, -999.99, 0.0, 6129.99, 6130.0, 6130.01, 7999.98, 7999.99, 8000.0, 8000.01, 10000.0]), st.floats(-1000, 10000).map(lambda x: round(x, 2))),
        "speed": st.one_of(st.sampled_from([0.0, 0.004, 0.01, 163.81, 163.82, 163.83, 200.0]), st.floats(0, 200).map(lambda x: round(x, 3))),
        "track": st.one_of(st.sampled_from([0.0, 0.04, 359.9, 359.95, 360.0, 180.0]), st.floats(0, 360).map(lambda x: round(x, 3))),
        "epx": _err(), "epy": _err(), "epv": _err(), "epd": _err(),
    }
    keys = sorted(fields)
    return st.fixed_dictionaries({k: st.one_of(st.none(), fields[k], fields[k], fields[k]) for k in keys}).map(lambda d: {k: v for k, v in d.items() if v is not None})


def case_s():
    return st.fixed_dictionaries({
        "svc": st.sampled_from(["cam", "cam", "vam", "vam", "vam_cluster", "denm"]),
        "cluster_state": st.sampled_from(["leader", "leader_breakup", "join_notify", "join_cancelled", "left", "standalone"]),
        # how long the join notification / break-up warning has been running when the first report arrives (the remaining time goes
        # into joinTime / breakupTime in quarter seconds, constrained to 1..255: the last quarter second is the edge)
        "cluster_age_ms": st.sampled_from([0, 0, 1000, 2400, 2600, 2700]),
        "station_type": st.integers(0, 15), "station_id": st.one_of(st.sampled_from([0, 1, 4294967295]), st.integers(0, 4294967295)),
        "role": st.integers(0, 15),
        "t0_ms": st.one_of(st.sampled_from([0, 1, 65535, 65536, 65537, 500]), st.integers(0, 200000)),
        "reports": st.lists(report_s(), min_size=1, max_size=4),
    })


# ---- independent mapping -----------------------------------------------------------------------
def within(decoded, unit, measured):
    """|decoded x unit - measured| < 1 unit, evaluated in units with a float-noise allowance."""
    return abs(decoded - measured / unit) < 1 + 1e-4


def check_position(rp, rep, vs, who, axes_major_first):
    def bad(sig, msg):
        vs.append(violation(ID, "C11/%s:%s" % (who, sig), msg))
    lat, lon = rp["latitude"], rp["longitude"]
    if not (-900000000 <= lat <= 900000001) or not (-1800000000 <= lon <= 1800000001):
        bad("position-outside-constraint", "latitude %d longitude %d" % (lat, lon))
    if "lat" in rep:
        if not within(lat, 1e-7, rep["lat"]):
            bad("latitude-wrong", "report lat %r encoded %d" % (rep["lat"], lat))
    elif lat != 900000001:
        bad("latitude-not-unavailable", "no lat in report but latitude %d" % lat)
    if "lon" in rep:
        if not within(lon, 1e-7, rep["lon"]):
            bad("longitude-wrong", "report lon %r encoded %d" % (rep["lon"], lon))
    elif lon != 1800000001:
        bad("longitude-not-unavailable", "no lon in report but longitude %d" % lon)
    alt = rp["altitude"]["altitudeValue"]
    if not (-100000 <= alt <= 800001):
        bad("altitude-outside-constraint", "altitudeValue %d" % alt)
    if "altHAE" in rep:
        a = rep["altHAE"]
        if a >= 8000.0 - 1e-9:
            ok = alt == 800000 or (a < 8000.0 + 1e-9 and alt == 799999)
        elif a <= -1000.0 + 1e-9:
            ok = alt == -100000
        else:
            ok = within(alt, 0.01, a) and alt < 800000
        if not ok:
            bad("altitude-wrong:%s" % ("above-range" if a >= 8000 else ("in-range" if a > -1000 else "below-range")), "report altHAE %r m encoded altitudeValue %d" % (a, alt))
    elif alt != 800001:
        bad("altitude-not-unavailable", "no altHAE but altitudeValue %d" % alt)
    conf = rp["altitude"]["altitudeConfidence"]
    if "epv" in rep:
        e = rep["epv"]
        tight = next((i for i, b in enumerate(ALT_CLASSES) if e <= b), None)
        if tight is None:
            ok = conf == "outOfRange"
        else:
            allowed = {ALT_NAMES[tight]}
            if tight + 1 < len(ALT_NAMES):
                allowed.add(ALT_NAMES[tight + 1])
            elif e >= 200:
                allowed.add("outOfRange")
            ok = conf in allowed
        if not ok:
            bad("altitude-confidence-wrong", "epv %r -> %s" % (e, conf))
    elif conf != "unavailable":
        bad("altitude-confidence-not-unavailable", "no epv but %s" % conf)
    ell = rp["positionConfidenceEllipse"]
    k1, k2 = ("semiMajorAxisLength", "semiMinorAxisLength") if "semiMajorAxisLength" in ell else ("semiMajorConfidence", "semiMinorConfidence")
    ma, mi = ell[k1], ell[k2]
    if not (0 <= ma <= 4095 and 0 <= mi <= 4095):
        bad("ellipse-outside-constraint", "semi axes %d/%d" % (ma, mi))
    if "epx" in rep and "epy" in rep:
        def enc_ok(v, e):
            if e >= 40.94 - 1e-9:
                return v == 4094 or (e < 40.94 + 1e-9 and v == 4093)
            return within(v, 0.01, e) and v <= 4093
        big, small = max(rep["epx"], rep["epy"]), min(rep["epx"], rep["epy"])
        if axes_major_first:
            ok = enc_ok(ma, big) and enc_ok(mi, small)
        else:
            ok = (enc_ok(ma, big) and enc_ok(mi, small)) or (enc_ok(ma, small) and enc_ok(mi, big))
        if not ok:
            bad("ellipse-wrong:%s" % ("out-of-range" if big >= 40.94 else "in-range"), "epx %r epy %r -> semi axes %d/%d" % (rep["epx"], rep["epy"], ma, mi))
    elif (ma, mi) != (4095, 4095):
        bad("ellipse-not-unavailable", "epx/epy missing but semi axes %d/%d" % (ma, mi))


def check_motion(heading_v, heading_c, speed_v, rep, vs, who):
    def bad(sig, msg):
        vs.append(violation(ID, "C11/%s:%s" % (who, sig), msg))
    if not (0 <= heading_v <= 3601) or not (1 <= heading_c <= 127) or not (0 <= speed_v <= 16383):
        bad("motion-outside-constraint", "heading %d conf %d speed %d" % (heading_v, heading_c, speed_v))
    if "track" in rep:
        t = rep["track"]
        ok = within(heading_v, 0.1, t) and heading_v <= 3600 or (t > 359.9 and heading_v == 0)
        if not ok:
            bad("heading-wrong", "track %r -> headingValue %d" % (t, heading_v))
    elif heading_v != 3601:
        bad("heading-not-unavailable", "no track but headingValue %d" % heading_v)
    if "epd" in rep:
        e = rep["epd"]
        if e > 12.5 + 1e-9:
            ok = heading_c == 126
        else:
            lo, hi = max(1, math.floor(e * 10 - 1e-9)), max(1, math.ceil(e * 10 + 1e-9))
            ok = lo <= heading_c <= min(hi, 125) or (e >= 12.5 - 1e-9 and heading_c == 126)
        if not ok:
            bad("heading-confidence-wrong:%s" % ("below-0.1" if e < 0.1 else "other"), "epd %r -> headingConfidence %d" % (e, heading_c))
    elif heading_c != 127:
        bad("heading-confidence-not-unavailable", "no epd but %d" % heading_c)
    if "speed" in rep:
        v = rep["speed"]
        if v >= 163.82 - 1e-9:
            ok = speed_v == 16382 or (v < 163.82 + 1e-9 and speed_v == 16381)
        else:
            ok = within(speed_v, 0.01, v) and speed_v <= 16381
        if not ok:
            bad("speed-wrong", "speed %r -> speedValue %d" % (v, speed_v))
    elif speed_v != 16383:
        bad("speed-not-unavailable", "no speed but speedValue %d" % speed_v)


def check_gdt(gdt, t, vs, who):
    want = fac.its_ms_of_iso(t) % 65536
    if gdt not in (want, (want - 1) % 65536, (want + 1) % 65536) or not (0 <= gdt <= 65535):
        vs.append(violation(ID, "C11/%s:generationDeltaTime-wrong" % who, "report time %.3f -> generationDeltaTime %d, expected %d" % (t, gdt, want)))


def roundtrip(coder, data, vs, who):
    try:
        msg = coder.decode(data)
    except Exception as e:
        vs.append(violation(ID, "C11/%s:payload-does-not-decode" % who, "payload %s... raised %r" % (bytes(data)[:20].hex(), e)))
        return None
    try:
        if coder.encode(msg) != bytes(data):
            vs.append(violation(ID, "C11/%s:reencoding-differs" % who, "decode/encode is not the identity on the emitted payload"))
    except Exception as e:
        vs.append(violation(ID, "C11/%s:reencoding-raises" % who, repr(e)))
    return msg


# ---- running the services ----------------------------------------------------------------------
def nontrivial_report(rep):
    if rep.get("lat", 0) < 0 or rep.get("lon", 0) < 0:
        return True
    if len(rep) < 9:
        return True
    return rep.get("altHAE", 0) >= 8000 or rep.get("speed", 0) >= 163.82 or max(rep.get("epx", 0), rep.get("epy", 0)) >= 40.94 or rep.get("epd", 1) > 12.5 or rep.get("epv", 0) > 200 or rep.get("epd", 1) < 0.1


def run_case(case):
    from ..vclock import VClock
    svc = case["svc"]
    base = 1_700_000_000.0 - (fac.its_ms_of_iso(1_700_000_000.0) % 65536) / 1000.0 + 65.536 * 3   # an instant where gdt == 0
    clock = VClock(base + case["t0_ms"] / 1000.0 - 0.3)
    vs = []
    labels = ["svc:" + svc]
    try:
        if svc == "cam":
            run_cam(case, clock, vs)
        elif svc in ("vam", "vam_cluster"):
            labels.append("cluster:" + case["cluster_state"] if svc == "vam_cluster" else "cluster:none")
            run_vam(case, clock, vs, svc == "vam_cluster")
        else:
            run_denm(case, clock, vs)
        nt = any(nontrivial_report(r) for r in case["reports"]) or svc == "vam_cluster"
        return Outcome(vs, labels=labels, nontrivial=nt)
    finally:
        clock.uninstall()


def run_cam(case, clock, vs):
    from flexstack.facilities.ca_basic_service.cam_transmission_management import CAMTransmissionManagement, VehicleData
    fac.install_cam_time(clock, 0.05)
    btp = fac.RecBTP(clock)
    vd = VehicleData(station_id=case["station_id"], station_type=case["station_type"], vehicle_role=case["role"])
    mgr = CAMTransmissionManagement(btp, fac.coder("cam"), vd)
    mgr.start()
    try:
        for i, rep in enumerate(case["reports"]):
            clock.advance(0.3)
            t = clock.now
            mgr.location_service_callback(fac.tpv(t, rep))
            n = len(btp.requests)
            clock.advance(1.15)        # > T_GenCamMax + one check period: a CAM is due whatever the dynamics
            new = btp.requests[n:]
            if not new:
                vs.append(violation(ID, "C11/cam:no-message-for-report:%s" % _why(rep), "report %d %r produced no CAM within T_GenCamMax + T_CheckCamGen" % (i, rep)))
                continue
            for (_, req) in new[:2]:
                msg = roundtrip(fac.coder("cam"), req.data, vs, "cam")
                if msg is None:
                    continue
                if msg["header"]["stationId"] != case["station_id"] or msg["header"]["messageId"] != 2:
                    vs.append(violation(ID, "C11/cam:header-wrong", "header %r" % (msg["header"],)))
                p = msg["cam"]["camParameters"]
                if p["basicContainer"]["stationType"] != case["station_type"]:
                    vs.append(violation(ID, "C11/cam:station-type-wrong", "stationType %r" % p["basicContainer"]["stationType"]))
                check_position(p["basicContainer"]["referencePosition"], rep, vs, "cam", True)
                hf = p["highFrequencyContainer"][1]
                check_motion(hf["heading"]["headingValue"], hf["heading"]["headingConfidence"], hf["speed"]["speedValue"], rep, vs, "cam")
                check_gdt(msg["cam"]["generationDeltaTime"], t, vs, "cam")
    finally:
        mgr.stop()


def _why(rep):
    if max(rep.get("epx", 0), rep.get("epy", 0)) >= 40.94 and "epx" in rep and "epy" in rep:
        return "ellipse-out-of-range"
    if rep.get("epd", 1) < 0.1:
        return "epd-below-0.1"
    if rep.get("altHAE", 0) >= 8000:
        return "altitude-above-range"
    missing = [k for k in ("lat", "lon", "speed", "track") if k not in rep]
    if missing:
        return "missing-" + "+".join(missing)
    return "other"


def make_cluster_manager(state, clock, station_id):
    from flexstack.facilities.vru_awareness_service.vru_clustering import ClusterBreakupReason, ClusterLeaveReason, VBSClusteringManager
    import flexstack.facilities.vru_awareness_service.vru_clustering as vc
    import types
    clock._set(vc, "random", types.SimpleNamespace(randint=lambda a, b: 77))
    m = VBSClusteringManager(own_station_id=station_id, time_fn=lambda: clock.now)
    if state in ("leader", "leader_breakup"):
        for sid in (101, 102, 103):
            m.on_received_vam({"header": {"stationId": sid}, "vam": {"vamParameters": {"basicContainer": {"referencePosition": {"latitude": 413000000, "longitude": 21000000}},
                                                                                      "vruHighFrequencyContainer": {"speed": {"speedValue": 100}, "heading": {"value": 900}}}}})
        m.try_create_cluster(41.3, 2.1)
        if state == "leader_breakup":
            m.trigger_breakup_cluster(ClusterBreakupReason.CLUSTERING_PURPOSE_COMPLETED)
    elif state == "join_notify":
        m.initiate_join(9)
    elif state == "join_cancelled":
        m.initiate_join(9)
        m.cancel_join()
    elif state == "left":
        m.initiate_join(9)
        clock.advance(3.0)
        m.update(41.3, 2.1, 1.0, 90.0)
        m.on_received_vam({"header": {"stationId": 55}, "vam": {"vamParameters": {"basicContainer": {"referencePosition": {"latitude": 413000000, "longitude": 21000000}},
                                                                                 "vruClusterInformationContainer": {"vruClusterInformation": {"clusterId": 9, "clusterCardinalitySize": 2}}}}})
        m.trigger_leave_cluster(ClusterLeaveReason.SAFETY_CONDITION)
    return m


def run_vam(case, clock, vs, clustered):
    from flexstack.facilities.vru_awareness_service.vam_transmission_management import DeviceDataProvider, VAMTransmissionManagement
    import flexstack.facilities.vru_awareness_service.vam_transmission_management as vtm
    clock.install([vtm])
    fac.patch_real_time(clock)
    btp = fac.RecBTP(clock)
    cm = make_cluster_manager(case["cluster_state"], clock, case["station_id"]) if clustered else None
    want_state = case["cluster_state"] if clustered else None
    if clustered and want_state in ("join_notify", "leader_breakup") and case.get("cluster_age_ms"):
        clock.advance(case["cluster_age_ms"] / 1000.0)
    mgr = VAMTransmissionManagement(btp, fac.coder("vam"), DeviceDataProvider(station_id=case["station_id"], station_type=case["station_type"]), clustering_manager=cm)
    for i, rep in enumerate(case["reports"]):
        clock.advance(0.25)
        t = clock.now
        n = len(btp.requests)
        try:
            mgr.location_service_callback(fac.tpv(t, rep))
        except Exception as e:
            vs.append(violation(ID, "C11/vam:generation-raises:%s:%s" % (type(e).__name__, _why_vam(rep, want_state)), "report %d %r (cluster state %s) raised %r" % (i, rep, want_state, e)))
            continue
        new = btp.requests[n:]
        expect_msg = cm is None or cm.should_transmit_vam()
        if expect_msg and not new:
            vs.append(violation(ID, "C11/vam:no-message-for-report:%s" % _why_vam(rep, want_state), "report %d %r produced no VAM (250 ms after the previous one)" % (i, rep)))
            continue
        for (_, req) in new:
            msg = roundtrip(fac.coder("vam"), req.data, vs, "vam")
            if msg is None:
                continue
            p = msg["vam"]["vamParameters"]
            if msg["header"]["stationId"] != case["station_id"] or p["basicContainer"]["stationType"] != case["station_type"]:
                vs.append(violation(ID, "C11/vam:header-wrong", "header %r stationType %r" % (msg["header"], p["basicContainer"]["stationType"])))
            check_position(p["basicContainer"]["referencePosition"], rep, vs, "vam", False)
            hf = p["vruHighFrequencyContainer"]
            check_motion(hf["heading"]["value"], hf["heading"]["confidence"], hf["speed"]["speedValue"], rep, vs, "vam")
            check_gdt(msg["vam"]["generationDeltaTime"], t, vs, "vam")
            if clustered and i == 0:
                ci = p.get("vruClusterInformationContainer")
                op = p.get("vruClusterOperationContainer")
                if want_state in ("leader", "leader_breakup"):
                    if not ci or ci["vruClusterInformation"].get("clusterId") != 77 or ci["vruClusterInformation"].get("clusterCardinalitySize") != 1:
                        vs.append(violation(ID, "C11/vam:cluster-information-wrong", "leader VAM cluster information %r" % (ci,)))
                    else:
                        shape = ci["vruClusterInformation"].get("clusterBoundingBoxShape")
                        if not shape or shape[0] != "circular" or shape[1].get("radius") != 50:
                            vs.append(violation(ID, "C11/vam:cluster-bounding-box-wrong", "bounding box %r, expected circular with radius 50 (5 m in StandardLength12b units of 0.1 m)" % (shape,)))
                if want_state == "leader_breakup" and (not op or "clusterBreakupInfo" not in op):
                    vs.append(violation(ID, "C11/vam:cluster-operation-wrong", "break-up announced but operation container %r" % (op,)))
                if want_state == "join_notify" and (not op or op.get("clusterJoinInfo", {}).get("clusterId") != 9):
                    vs.append(violation(ID, "C11/vam:cluster-operation-wrong", "join notification but operation container %r" % (op,)))
                if want_state in ("join_cancelled", "left") and (not op or op.get("clusterLeaveInfo", {}).get("clusterId") != 9):
                    vs.append(violation(ID, "C11/vam:cluster-operation-wrong", "leave notification but operation container %r" % (op,)))


def _why_vam(rep, cstate):
    if cstate in ("leader", "leader_breakup"):
        return "cluster-leader"
    return _why(rep)


def run_denm(case, clock, vs):
    from flexstack.applications.road_hazard_signalling_service.emergency_vehicle_approaching_service import EmergencyVehicleApproachingService
    from flexstack.applications.road_hazard_signalling_service.service_access_point import DENRequest
    from flexstack.facilities.decentralized_environmental_notification_service.den_service import DecentralizedEnvironmentalNotificationService
    from flexstack.facilities.ca_basic_service.cam_transmission_management import VehicleData
    from flexstack.facilities.local_dynamic_map.ldm_classes import ReferencePosition, TimestampIts
    import flexstack.facilities.decentralized_environmental_notification_service.denm_transmission_management as dtm
    from ..vclock import SleepWorld
    import flexstack.facilities.decentralized_environmental_notification_service.den_service as dsm
    world = SleepWorld(clock).install([dtm])
    clock.install([])
    clock._set(dsm, "DENMCoder", lambda: fac.coder("denm"))     # compiling the ASN.1 once per process, not per service
    btp = fac.RecBTP(clock)
    vd = VehicleData(station_id=case["station_id"], station_type=case["station_type"])
    den = DecentralizedEnvironmentalNotificationService(btp, vd)
    for i, rep in enumerate(case["reports"]):
        clock.advance(0.2)
        n = len(btp.requests)
        try:
            if i % 2 == 0:
                app = EmergencyVehicleApproachingService(den, duration=1000)
                app.trigger_denm_sending(fac.tpv(clock.now, rep))
                world.run()
                kind = "emergency"
            else:
                lat = int(rep.get("lat", 0) * 1e7)
                lon = int(rep.get("lon", 0) * 1e7)
                pos = {"latitude": lat, "longitude": lon, "positionConfidenceEllipse": {"semiMajorConfidence": 4095, "semiMinorConfidence": 4095, "semiMajorOrientation": 3601},
                       "altitude": {"altitudeValue": 800001, "altitudeConfidence": "unavailable"}}
                req = DENRequest(detection_time=fac.its_ms_of_iso(clock.now), event_position=pos, lcrw_cause_code="collisionRisk97", lcrw_subcause_code=4)
                den.denm_transmission_management.send_collision_risk_warning_denm(req)
                kind = "collision"
        except Exception as e:
            vs.append(violation(ID, "C11/denm:generation-raises:%s:%s" % (kind if "kind" in dir() else "x", type(e).__name__), "report %d %r raised %r" % (i, rep, e)))
            continue
        for th, err in world.errors:
            vs.append(violation(ID, "C11/denm:generation-raises:thread", "DENM thread died: %s" % err))
        world.errors.clear()
        new = btp.requests[n:]
        if len(new) != 1:
            vs.append(violation(ID, "C11/denm:message-count:%s" % kind, "report %d: %d DENMs handed over, expected 1" % (i, len(new))))
            continue
        req = new[0][1]
        msg = roundtrip(fac.coder("denm"), req.data, vs, "denm")
        if msg is None:
            continue
        ep = msg["denm"]["management"]["eventPosition"]
        if kind == "emergency":
            check_position(ep, {k: v for k, v in rep.items() if k in ("lat", "lon", "altHAE")}, vs, "denm", False)
        else:
            if (ep["latitude"], ep["longitude"]) != (int(rep.get("lat", 0) * 1e7), int(rep.get("lon", 0) * 1e7)):
                vs.append(violation(ID, "C11/denm:event-position-wrong", "event position %r" % (ep,)))
        if (req.gn_area.latitude, req.gn_area.longitude) != (ep["latitude"], ep["longitude"]):
            vs.append(violation(ID, "C11/denm:area-not-at-event-position", "GBC area centre (%d,%d), event position (%d,%d)" % (req.gn_area.latitude, req.gn_area.longitude, ep["latitude"], ep["longitude"])))
        if msg["header"]["stationId"] != case["station_id"]:
            vs.append(violation(ID, "C11/denm:header-wrong", "header %r" % (msg["header"],)))


def job(n, seed):
    return core.hyp_run(case_s(), run_case, n=n, seed=seed, kind="reports")


# ---- receiver side: gdt -> absolute time --------------------------------------------------------
def job_gdt(shard, nshards):
    from flexstack.facilities.ca_basic_service.cam_transmission_management import GenerationDeltaTime
    part = Partial()
    n = bad = 0
    base_ms = 1_700_000_000_000
    first = {}
    gens = [base_ms + k * 7919 for k in range(shard, 400, nshards)] + [base_ms - (base_ms - 1072915200000 + 5000) % 65536 + d for d in (-1, 0, 1, 65535, 65536)]
    for g in gens:
        gdt = GenerationDeltaTime.from_timestamp(g / 1000.0)
        for age in list(range(0, 65000, 499)) + [0, 1, 64999, 65000, 65534]:
            now = g + age
            got = gdt.as_timestamp_in_certain_point(now)
            n += 1
            if abs(got - g) > 1:
                sig = "C11/rx:generation-time-reconstruction-wrong"
                part.sig_counts[sig] += 1
                if sig not in first:
                    first[sig] = 1
                    part.violations.append(violation(ID, sig, "generated at %d ms, received at age %d ms: reconstructed %r" % (g, age, got), case={"g": g, "age": age}, kind="gdt"))
    part.evaluations += n
    part.nontrivial_extra += n
    part.subcount("gdt-reconstruction", evaluations=n)
    return part


def run_gdt(case):
    from flexstack.facilities.ca_basic_service.cam_transmission_management import GenerationDeltaTime
    g, age = case["g"], case["age"]
    got = GenerationDeltaTime.from_timestamp(g / 1000.0).as_timestamp_in_certain_point(g + age)
    vs = []
    if abs(got - g) > 1:
        vs.append(violation(ID, "C11/rx:generation-time-reconstruction-wrong", "generated at %d ms, age %d ms: reconstructed %r" % (g, age, got)))
    return Outcome(vs, nontrivial=True)


def jobs(tier, seed):
    k = 1 if tier == "quick" else 14
    js = [{"fn": "vf.props.c11:job", "args": {"n": 400 * k, "seed": seed * 1000 + s}} for s in range(14)]
    js += [{"fn": "vf.props.c11:job_gdt", "args": {"shard": s, "nshards": 2}} for s in range(2)]
    return js


def replay(kind, case):
    if kind == "gdt":
        return run_gdt(case)
    return run_case(case)

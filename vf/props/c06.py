"""C06 - Multi-hop packets: at-most-once delivery and forwarding, shrinking hop budget.

(1) single-station reception histories against a duplicate-packet-list model;
(2) multi-station line/mesh floods through real routers on the simulated ether."""
from __future__ import annotations

from collections import deque

from hypothesis import strategies as st

from .. import core, refcodec as rc
from ..core import Outcome, Partial, violation, H, B

ID = "C06"
RULE = ("(1) histories of 1..60 frames built by the reference codec from 4 sources plus the station's own address: TSB, GBC, GAC "
        "(3 shapes), GUC (to me / to another known or unknown station), LS request/reply (for me / for another); RHL 0..255 weighted on "
        "0,1,2,MHL; SNs drawn from a 12-value pool placed across the 65535/0 wrap so exact duplicates and replays are frequent; "
        "itsGnDPLLength in {1,2,8}; ego inside or outside the area; SIMPLE and CBF with virtual timers fired by drawn clock advances; "
        "oracle = per-source DPL ring model + byte comparison of every transmitted frame with the received one (RHL-1, DE PV refreshed "
        "only by a strictly newer LocT PV). (2) floods in drawn line/mesh topologies of 3..5 real stations (SIMPLE/CBF): termination, "
        "at most one transmission and one delivery per (source,SN) and station, exactly-once delivery under SIMPLE within the hop budget, "
        "RHL strictly decreasing. Non-trivial = history with an in-window duplicate, RHL<=1, CBF duplicate-while-buffered, or a topology "
        "with a cycle.")
ASSUMPTIONS = [
    "itsGnMaxPacketDataRate is set high so that PDR limiting (which may legitimately suppress a forward) does not interfere; only '<= 1' is demanded for forwards in single-station histories",
    "conformant senders: reserved bits zero, MHL >= RHL",
    "histories span < itsGnLifetimeLocTE so the DPL of a source is never reset by expiry",
    "under CBF a suppressed contender may leave a station unreached (inherent to CBF): exactly-once delivery is only demanded under SIMPLE",
]

OWN = b"\x02\x00\x00\x00\x00\x01"
SRC = [b"\x02\x00\x00\x00\x20\x01", b"\x02\x00\x00\x00\x20\x02", b"\x02\x00\x00\x00\x20\x03", b"\x02\x00\x00\x00\x20\x04"]
UNKNOWN = b"\x02\x00\x00\x00\x66\x66"
EGO = (413000000, 21000000)
SRCPOS = [(413001000, 21001000), (412999000, 21002000), (413003000, 20998000), (413000500, 21000500)]
KINDS = ["tsb", "gbc0", "gbc1", "gbc2", "gac0", "gac1", "gac2", "guc", "lsreq", "lsrep", "beacon"]
SN_BASE = 65530


def rx_s():
    return st.fixed_dictionaries({
        "op": st.just("rx"),
        "src": st.sampled_from([0, 0, 1, 1, 2, 3, 4]),
        "kind": st.sampled_from(KINDS),
        "sn": st.integers(0, 11),
        "rhl": st.one_of(st.sampled_from([0, 1, 2, 3, 10, 255]), st.integers(0, 255)),
        "mhl_extra": st.sampled_from([0, 0, 1, 5]),
        "to": st.sampled_from(["me", "unknown", 0, 1, 2, 3]),
        "de_off": st.sampled_from([-1000, 0, 1000]),
        "plen": st.sampled_from([0, 1, 7, 60]),
    })


def case_s():
    adv = st.fixed_dictionaries({"op": st.just("adv"), "ms": st.sampled_from([0, 1, 30, 50, 99, 100, 101, 150])})
    return st.fixed_dictionaries({
        "cbf": st.booleans(), "dpl": st.sampled_from([1, 2, 8]), "inside": st.booleans(), "neighbour": st.booleans(),
        # where the clock starts: far from, or a few hundred ms before, the 2^32 ms wrap of the position-vector timestamps
        "before_wrap_ms": st.sampled_from([None, None, None, 40, 150, 400, 1000]),
        "events": st.lists(st.one_of(rx_s(), rx_s(), rx_s(), adv), min_size=1, max_size=60),
    })


def _payload(src, sn, plen):
    return b"\x07\xd2\x00\x00" + bytes(((src * 31 + sn * 7 + i) % 256) for i in range(plen))


def build_frame(ev, now, area_centre):
    from ..stack import addr_bytes
    from ..vclock import tst32
    src = ev["src"]
    mid = OWN if src == 4 else SRC[src]
    pos = EGO if src == 4 else SRCPOS[src]
    sn = (SN_BASE + ev["sn"]) % 65536
    so = {"addr": addr_bytes(mid), "tst": tst32(now), "lat": pos[0], "lon": pos[1], "pai": 1, "speed": 0, "heading": 0}
    kind = ev["kind"]
    k = kind.rstrip("012")
    rhl = ev["rhl"]
    mhl = min(255, rhl + ev["mhl_extra"])
    kw = dict(so=so, sn=sn, rhl=rhl, mhl=mhl, payload=_payload(src, ev["sn"], ev["plen"]))
    if k in ("gbc", "gac"):
        kw["area"] = {"lat": area_centre[0], "lon": area_centre[1], "a": 150, "b": 120, "angle": 0, "shape": int(kind[-1])}
    to = ev["to"]
    if to == "me":
        de_mid, de_pos = OWN, EGO
    elif to == "unknown":
        de_mid, de_pos = UNKNOWN, (413100000, 21100000)
    else:
        de_mid, de_pos = SRC[to], SRCPOS[to]
    if k in ("guc", "lsrep"):
        kw["de"] = {"addr": addr_bytes(de_mid), "tst": (tst32(now) + ev["de_off"]) % (1 << 32), "lat": de_pos[0] + 5, "lon": de_pos[1] + 5}
    if k == "lsreq":
        kw["req_addr"] = addr_bytes(de_mid)
    if k in ("lsreq", "lsrep", "beacon"):
        kw["payload"] = b""
    if k == "beacon":
        kw["rhl"] = kw["mhl"] = 1
    return rc.build_packet(k, **kw), k, sn, de_mid


def run_case(case):
    from flexstack.geonet import router as gr, location_table as ltm
    from flexstack.geonet.mib import AreaForwardingAlgorithm
    from ..stack import Station, addr_bytes
    from ..vclock import VClock, tst32

    labels = set()
    from ..vclock import utc_before_wrap
    bw = case.get("before_wrap_ms")
    clock = VClock(1_700_000_000.0 if bw is None else utc_before_wrap(bw))
    clock.install([gr, ltm])
    vs = []
    try:
        if bw is not None:
            labels.add("clock-near-tst-wrap")
        st_ = Station(None, OWN, mib_kwargs=dict(
            itsGnDPLLength=case["dpl"], itsGnMaxPacketDataRate=10**9, itsGnMaxGeoAreaSize=10**6,
            itsGnAreaForwardingAlgorithm=AreaForwardingAlgorithm.CBF if case["cbf"] else AreaForwardingAlgorithm.SIMPLE))
        st_.set_position(clock.now, *EGO)
        area_centre = EGO if case["inside"] else (418000000, 21000000)
        if case["neighbour"]:
            st_.receive(rc.build_packet("beacon", so={"addr": addr_bytes(b"\x02\x00\x00\x00\x55\x55"), "tst": tst32(clock.now), "lat": 413002000, "lon": 21000000, "pai": 1}))
        own_ab = addr_bytes(OWN)
        rings = {}            # src -> deque of SNs (model DPL)
        accepted = {}         # (src, sn) -> dict(frame, kind, rhl, forwarded, cancelled, delivered)
        srcpv = {}            # src -> (tst, nb) newest PV timestamp seen from that source; nb via beacon
        srcpv_all = {}        # src -> every PV timestamp that source put on the air (a duplicate's PV is not stored by the receiver, a fresh packet's is)
        n_ind = n_sent = 0
        templ = {}
        first_time = {}

        def check_new_output(step, ctx, just=None):
            nonlocal n_ind, n_sent
            inds = st_.gn_indications[n_ind:]
            sent = st_.ll.sent[n_sent:]
            n_ind, n_sent = len(st_.gn_indications), len(st_.ll.sent)
            for ind in inds:
                so_mid = ind.source_position_vector.gn_addr.mid.mid
                if so_mid == OWN:
                    vs.append(violation(ID, "C06/own-address-delivered", "step %d (%s): indication for a packet bearing the station's own address" % (step, ctx)))
                    continue
                if just is None or not just.get("fresh") or just["delivered"] >= 1 or so_mid != just["mid"]:
                    why = "no reception pending" if just is None else ("duplicate within window" if not just.get("fresh") else "second delivery")
                    vs.append(violation(ID, "C06/delivered-more-than-once:%s" % (just["k"] if just else "timer"), "step %d (%s): indication (%s)" % (step, ctx, why)))
                else:
                    just["delivered"] += 1
            for pkt in sent:
                p = rc.parse_packet(pkt)
                so = p["ext"]["so"]
                if so["addr"] == own_ab:
                    if p["common"]["ht"] == rc.HT_LS and p["common"]["hst"] == 1 and just is not None and just.get("fresh") and just["k"] == "lsreq" and just["to_me"] and not just.get("replied"):
                        just["replied"] = True
                        continue
                    vs.append(violation(ID, "C06/own-address-forwarded", "step %d (%s): transmitted a packet with the station's own source address: %s" % (step, ctx, pkt[:40].hex())))
                    continue
                sn = p["ext"].get("sn")
                key = (so["addr"], sn)
                recs = accepted.get(key)
                if not recs:
                    vs.append(violation(ID, "C06/forward-of-unaccepted-packet", "step %d (%s): transmitted %s which was never accepted as fresh" % (step, ctx, pkt[:40].hex())))
                    continue
                pending = [r for r in recs if r["forwarded"] == 0]
                if not pending:
                    vs.append(violation(ID, "C06/forwarded-more-than-once:%s" % recs[-1]["k"], "step %d (%s): (source,SN)=(%s,%d) transmitted again" % (step, ctx, so["addr"].hex(), sn)))
                    continue
                # (source,SN) may have been accepted again after eviction from the DPL: match the copy by its RHL
                match = sorted([r for r in pending if r["rhl"] - 1 == pkt[3]], key=lambda r: r["cancelled"])
                rec = match[0] if match else pending[-1]
                rec["forwarded"] += 1
                if rec["cancelled"]:
                    vs.append(violation(ID, "C06/cbf-copy-sent-after-duplicate", "step %d (%s): buffered copy of (%s,%d) transmitted although a duplicate was overheard" % (step, ctx, so["addr"].hex(), sn)))
                if rec["rhl"] <= 1:
                    vs.append(violation(ID, "C06/forwarded-with-rhl<=1:%s" % rec["k"], "step %d (%s): received RHL %d but a copy was transmitted with RHL %d" % (step, ctx, rec["rhl"], pkt[3])))
                    continue
                want = rec["frame"][:3] + bytes([rec["rhl"] - 1]) + rec["frame"][4:]
                if pkt != want:
                    ok = False
                    if rec["k"] in ("guc", "lsrep") and len(pkt) == len(want):
                        # DE PV may be refreshed by a strictly newer LocT PV of a neighbour
                        lo, hi = 4 + 8 + 4 + 24, 4 + 8 + 4 + 24 + 20
                        if pkt[:lo] == want[:lo] and pkt[hi:] == want[hi:]:
                            got_de, old_de = rc.parse_spv(pkt[lo:hi]), rc.parse_spv(want[lo:hi])
                            d = (got_de["tst"] - old_de["tst"]) % (1 << 32)
                            j = rec.get("to")
                            if got_de["addr"] == old_de["addr"] and 0 < d < (1 << 31) and isinstance(j, int) and srcpv.get(j, (None, False))[1] \
                                    and (got_de["lat"], got_de["lon"]) == SRCPOS[j] and got_de["tst"] in srcpv_all.get(j, ()):
                                ok = True
                                labels.add("de-pv-refreshed")
                    if not ok:
                        pos = next((i for i in range(min(len(pkt), len(want))) if pkt[i] != want[i]), -1)
                        vs.append(violation(ID, "C06/forwarded-copy-differs:%s" % rec["k"], "step %d (%s): forwarded %s != received-with-RHL-1 %s (octet %d)" % (
                            step, ctx, pkt[:80].hex(), want[:80].hex(), pos)))

        for step, ev in enumerate(case["events"]):
            if ev["op"] == "adv":
                clock.advance(ev["ms"] / 1000.0)
                check_new_output(step, "timer expiry")
                continue
            # a replay of (source, SN) is the same packet again (possibly with another RHL, as a forwarded copy would have);
            # a conformant source never reuses an SN for a different packet inside the window
            if ev["kind"] != "beacon":
                first = templ.setdefault((ev["src"], ev["sn"]), ev)
                if first["kind"] == "beacon":
                    first = templ[(ev["src"], ev["sn"])] = ev
                ev = dict(first, rhl=ev["rhl"], mhl_extra=ev["mhl_extra"])
            # a replay is the very same packet (same source position vector and timestamp), only its hop limit may differ
            built_at = clock.now if ev["kind"] == "beacon" else first_time.setdefault((ev["src"], ev["sn"], ev["kind"]), clock.now)
            frame, k, sn, de_mid = build_frame(ev, built_at, area_centre)
            src = ev["src"]
            mid = OWN if src == 4 else SRC[src]
            just = {"k": k, "mid": mid, "delivered": 0, "to_me": de_mid == OWN}
            if src != 4:
                if k == "beacon":
                    just["fresh"] = False    # beacons are never delivered or forwarded
                    srcpv[src] = (tst32(clock.now), True)
                    srcpv_all.setdefault(src, set()).add(tst32(clock.now))
                else:
                    ring = rings.setdefault(src, deque(maxlen=case["dpl"]))
                    if sn in ring:
                        just["fresh"] = False
                        labels.add("in-window-duplicate")
                        for rec in accepted.get((addr_bytes(mid), sn), []):
                            if rec["forwarded"] == 0 and case["cbf"] and rec["k"] == "gbc" and rec["rhl"] > 1 and case["inside"]:
                                rec["cancelled"] = True
                                labels.add("cbf-duplicate-while-buffered")
                    else:
                        ring.append(sn)
                        just["fresh"] = True
                        accepted.setdefault((addr_bytes(mid), sn), []).append({"frame": frame, "k": k, "rhl": ev["rhl"], "forwarded": 0, "cancelled": False, "to": ev["to"]})
                        if ev["rhl"] <= 1:
                            labels.add("rhl<=1")
                        if (SN_BASE + ev["sn"]) >= 65536:
                            labels.add("sn-wrapped")
                    old = srcpv.get(src, (None, False))
                    srcpv[src] = (tst32(built_at), old[1])
                    srcpv_all.setdefault(src, set()).add(tst32(built_at))
            else:
                just["fresh"] = False
                labels.add("own-address")
            err = st_.receive(frame)
            if err is not None:
                vs.append(violation(ID, "C06/reception-raises:%s:%s" % (k, type(err).__name__), "step %d: conformant %s frame raised %r" % (step, k, err)))
            check_new_output(step, "rx %s src=%d sn=%d rhl=%d" % (ev["kind"], src, sn, ev["rhl"]), just)
            # CBF: after a duplicate the buffered copy must be gone from the buffer
            if just.get("fresh") is False and case["cbf"] and src != 4 and k != "beacon":
                if any(rec["cancelled"] and rec["forwarded"] == 0 for rec in accepted.get((addr_bytes(mid), sn), [])):
                    if any(key[1] == sn and key[0].mid.mid == mid for key in st_.gn._cbf_buffer):
                        vs.append(violation(ID, "C06/cbf-copy-not-dropped-on-duplicate", "step %d: duplicate of (%s,%d) overheard but the copy is still buffered" % (step, mid.hex(), sn)))
            if vs:
                break
        # drain timers: nothing may come out that violates the model
        if not vs:
            clock.advance(1.0)
            check_new_output(len(case["events"]), "final timer drain")
        nontrivial = bool(labels & {"in-window-duplicate", "rhl<=1", "cbf-duplicate-while-buffered"})
        return Outcome(vs, labels=sorted(labels) + ["cbf" if case["cbf"] else "simple"], nontrivial=nontrivial)
    finally:
        clock.uninstall()


def job_histories(n, seed):
    return core.hyp_run(case_s(), run_case, n=n, seed=seed, kind="history")


# ---- multi-station floods -----------------------------------------------------------------------
def topo_s():
    def build(n):
        pairs = [(i, j) for i in range(n) for j in range(i + 1, n)]
        return st.fixed_dictionaries({
            "n": st.just(n),
            "line": st.booleans(),
            "extra": st.lists(st.sampled_from(pairs), max_size=6),
            "cbf": st.booleans(),
            "floods": st.lists(st.fixed_dictionaries({"origin": st.integers(0, n - 1), "kind": st.sampled_from(["tsb", "gbc0", "gbc1", "gbc2"]),
                                                       "hl": st.sampled_from([1, 2, 3, 10, 255]), "plen": st.sampled_from([0, 20, 300])}), min_size=1, max_size=3),
            "pos": st.lists(st.tuples(st.integers(-800, 800), st.integers(-800, 800)), min_size=n, max_size=n),
            "south_west": st.booleans(),
        })
    return st.integers(3, 5).flatmap(build)


def run_topo(case):
    from flexstack.geonet import router as gr, location_table as ltm
    from flexstack.geonet.mib import AreaForwardingAlgorithm
    from flexstack.geonet.service_access_point import (Area, CommonNH, GeoBroadcastHST, GNDataRequest, HeaderType, PacketTransportType, TopoBroadcastHST)
    from ..stack import Ether, Station
    from ..vclock import VClock

    n = case["n"]
    clock = VClock(1_700_000_000.0)
    clock.install([gr, ltm])
    vs = []
    labels = set()
    try:
        eth = Ether()
        base = (-337000000, -707000000) if case["south_west"] else (413000000, 21000000)
        sts = []
        for i in range(n):
            s = Station(eth, bytes([2, 0, 0, 0, 0x30, i + 1]), mib_kwargs=dict(
                itsGnMaxPacketDataRate=10**9, itsGnMaxGeoAreaSize=10**6,
                itsGnAreaForwardingAlgorithm=AreaForwardingAlgorithm.CBF if case["cbf"] else AreaForwardingAlgorithm.SIMPLE))
            s.set_position(clock.now, base[0] + case["pos"][i][0] * 90, base[1] + case["pos"][i][1] * 120)
            sts.append(s)
        edges = set()
        if case["line"]:
            for i in range(n - 1):
                edges.add((i, i + 1))
        else:
            for i in range(1, n):
                edges.add((0, i)) if i % 2 else edges.add((i - 1, i))
        for e in case["extra"]:
            edges.add(tuple(e))
        for a, b in edges:
            eth.connect(a, b)
        if len(edges) >= n:
            labels.add("cycle")
        # graph distances
        def dist_from(o):
            d = {o: 0}
            q = [o]
            while q:
                x = q.pop(0)
                for y in eth.adj[x]:
                    if y not in d:
                        d[y] = d[x] + 1
                        q.append(y)
            return d
        area = Area(latitude=base[0], longitude=base[1], a=60000, b=60000, angle=0)   # contains every station
        for fi, fl in enumerate(case["floods"]):
            o = sts[fl["origin"]]
            data = b"\x07\xd2\x00\x00" + bytes((fi + i) % 256 for i in range(fl["plen"]))
            if fl["kind"] == "tsb":
                # TSB origination is not offered by gn_data_request: inject the originator's packet on the ether as its link layer would
                from ..stack import addr_bytes
                from ..vclock import tst32
                hl = fl["hl"] if fl["hl"] > 1 else 10
                ego = o.gn.ego_position_vector
                pkt = rc.build_packet("tsb", so={"addr": addr_bytes(bytes([2, 0, 0, 0, 0x30, fl["origin"] + 1])), "tst": tst32(clock.now), "lat": ego.latitude, "lon": ego.longitude, "pai": 1},
                                      sn=1000 + fi, rhl=hl, mhl=hl, payload=data)
                o.ll.send(pkt)
                key_sn = 1000 + fi
            else:
                hl = fl["hl"] if fl["hl"] > 1 else o.mib.itsGnDefaultHopLimit
                req = GNDataRequest(upper_protocol_entity=CommonNH.BTP_B, packet_transport_type=PacketTransportType(HeaderType.GEOBROADCAST, GeoBroadcastHST(int(fl["kind"][-1]))),
                                    area=area, data=data, length=len(data), max_hop_limit=fl["hl"])
                try:
                    o.call(o.gn.gn_data_request, req)
                except Exception as e:
                    vs.append(violation(ID, "C06/flood-origination-raises:%s" % type(e).__name__, "GBC request raised %r" % (e,)))
                    break
                key_sn = None
            # run to quiescence: deliver frames, fire timers in due order
            guard = 0
            terminated = True
            while True:
                if not eth.pump(max_steps=5000):
                    terminated = False
                    break
                if not clock.fire_next():
                    break
                guard += 1
                if guard > 2000:
                    terminated = False
                    break
            if not terminated:
                vs.append(violation(ID, "C06/flood-does-not-terminate", "flood %d (%s, hop limit %d) still active after the step bound; %d frames on the ether" % (fi, fl["kind"], hl, len(eth.log))))
                break
            for s in sts:
                for e in s.errors:
                    vs.append(violation(ID, "C06/reception-raises:%s" % e[0], "station %d raised %s %s" % (s.index, e[0], e[1])))
                s.errors.clear()
            # analysis of this flood
            origin_ab = None
            tx = {}     # station -> list of (rhl)
            for sender, pkt in eth.log:
                p = rc.parse_packet(pkt)
                if p["common"]["ht"] not in (rc.HT_TSB, rc.HT_GBC) or (p["common"]["ht"] == rc.HT_TSB and p["common"]["hst"] == 0):
                    continue
                tx.setdefault(sender, []).append(p["basic"]["rhl"])
            for sender, rhls in tx.items():
                if len(rhls) > 1:
                    vs.append(violation(ID, "C06/flood-station-transmits-twice", "flood %d: station %d transmitted the packet %d times (RHLs %r)" % (fi, sender, len(rhls), rhls)))
            d = dist_from(fl["origin"])
            for s in sts:
                cnt = len(s.gn_indications)
                if s.index == fl["origin"]:
                    if cnt:
                        vs.append(violation(ID, "C06/flood-delivered-to-originator", "flood %d: originator got %d indications of its own packet" % (fi, cnt)))
                elif cnt > 1:
                    vs.append(violation(ID, "C06/flood-delivered-more-than-once", "flood %d: station %d got %d indications" % (fi, s.index, cnt)))
                elif cnt == 0 and not case["cbf"] and s.index in d and d[s.index] <= hl:
                    vs.append(violation(ID, "C06/flood-not-delivered-within-hop-budget", "flood %d (%s, SIMPLE, hop limit %d): station %d at distance %d got no indication" % (fi, fl["kind"], hl, s.index, d[s.index])))
                elif cnt == 1 and s.index in d and d[s.index] > hl:
                    vs.append(violation(ID, "C06/flood-delivered-beyond-hop-budget", "flood %d: station %d at distance %d > hop limit %d got the packet" % (fi, s.index, d[s.index], hl)))
            # RHL of a forwarder's copy = RHL it received - 1 : along every path RHL strictly decreases
            for sender, rhls in tx.items():
                if sender != fl["origin"] and sender in d and rhls and rhls[0] > hl - d[sender]:
                    vs.append(violation(ID, "C06/flood-rhl-not-decreasing", "flood %d: station %d at distance %d transmitted RHL %d (origin RHL %d)" % (fi, sender, d[sender], rhls[0], hl)))
            eth.log.clear()
            for s in sts:
                s.gn_indications.clear()
            clock.advance(0.01)
            if vs:
                break
        labels.add("cbf" if case["cbf"] else "simple")
        return Outcome(vs, labels=sorted(labels), nontrivial="cycle" in labels)
    finally:
        clock.uninstall()


def job_topos(n, seed):
    return core.hyp_run(topo_s(), run_topo, n=n, seed=seed, kind="topology")


def jobs(tier, seed):
    k = 1 if tier == "quick" else 20
    js = []
    for s in range(11):
        js.append({"fn": "vf.props.c06:job_histories", "args": {"n": 1500 * k, "seed": seed * 1000 + s}})
    for s in range(5):
        js.append({"fn": "vf.props.c06:job_topos", "args": {"n": 400 * k, "seed": seed * 1000 + 50 + s}})
    return js


def replay(kind, case):
    if kind == "history":
        return run_case(case)
    if kind == "topology":
        return run_topo(case)
    raise ValueError(kind)

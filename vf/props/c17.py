"""C17 - DEN service repeats an event's DENM on schedule with a stable, unique identity."""
from __future__ import annotations

import math

from hypothesis import strategies as st

from .. import core, fac
from ..core import Outcome, violation

ID = "C17"
RULE = ("1..5 events per station with drawn repetition interval 100..10000 ms, duration 0..60 s, start offsets producing arbitrary overlaps, "
        "event positions over the signed WGS-84 range, kind emergency-vehicle (EmergencyVehicleApproachingService or a direct DENRequest) or "
        "collision-risk (single shot); the real DEN service runs its repetition threads parked on a virtual clock (deterministic discrete "
        "events). Oracle on the recorded BTPDataRequests (port 2002, decoded with the DENM coder): per event ceil(T/i) messages at t0 + k*i, "
        "each a GBC circle centred on the event position, one action id and station id per event, non-decreasing reference times, distinct "
        "action ids for distinct events. Reception: DENMs with drawn management containers are decoded by DENMReceptionManagement into a real "
        "LDM and must be returned by an IF.LDM.4 request at the event position. Non-trivial = >= 2 overlapping events, T not a multiple of i, "
        "or negative coordinates.")
ASSUMPTIONS = [
    "message instants compared with 1 ms tolerance on the virtual clock",
    "events of one case have pairwise distinct event positions (used to attribute messages to events independently of the action id)",
    "the receiving LDM is placed > 1 km from the event positions (the area-of-maintenance collection of nearby objects is C12's recorded finding)",
]


def event_s():
    return st.fixed_dictionaries({
        "kind": st.sampled_from(["emergency_app", "emergency_req", "emergency_req", "collision"]),
        "interval": st.one_of(st.sampled_from([100, 101, 250, 1000, 3333, 10000]), st.integers(100, 10000)),
        "duration": st.one_of(st.sampled_from([0, 1, 99, 100, 101, 999, 1000, 1001, 10000, 60000]), st.integers(0, 60000)),
        "start_ms": st.one_of(st.sampled_from([0, 0, 50, 100, 1000]), st.integers(0, 20000)),
        "lat": st.one_of(st.sampled_from([41.3, -33.7, 0.0, 89.9, -89.9]), st.floats(-89.0, 89.0).map(lambda x: round(x, 5))),
        "lon": st.one_of(st.sampled_from([2.1, -70.7, 179.9, -179.9]), st.floats(-179.0, 179.0).map(lambda x: round(x, 5))),
    })


def case_s():
    return st.fixed_dictionaries({"station_id": st.integers(0, 4294967295), "events": st.lists(event_s(), min_size=1, max_size=5),
                                  "rx": st.lists(st.fixed_dictionaries({"lat": st.integers(-899000000, 899000000), "lon": st.integers(-1799000000, 1799000000),
                                                                        "seq": st.integers(0, 65535), "sid": st.integers(0, 4294967295),
                                                                        "validity": st.sampled_from([None, 0, 600, 86400]), "termination": st.sampled_from([None, "isCancellation", "isNegation"]),
                                                                        "station_type": st.integers(0, 15)}), max_size=3)})


def run_case(case):
    from flexstack.applications.road_hazard_signalling_service.emergency_vehicle_approaching_service import EmergencyVehicleApproachingService
    from flexstack.applications.road_hazard_signalling_service.service_access_point import DENRequest
    from flexstack.facilities.decentralized_environmental_notification_service.den_service import DecentralizedEnvironmentalNotificationService
    from flexstack.facilities.ca_basic_service.cam_transmission_management import VehicleData
    import flexstack.facilities.decentralized_environmental_notification_service.denm_transmission_management as dtm
    import flexstack.facilities.decentralized_environmental_notification_service.den_service as dsm
    from ..vclock import SleepWorld, VClock

    clock = VClock(1_700_000_000.0)
    vs = []
    labels = set()
    try:
        world = SleepWorld(clock).install([dtm])
        clock.install([])
        clock._set(dsm, "DENMCoder", lambda: fac.coder("denm"))
        btp = fac.RecBTP(clock)
        den = DecentralizedEnvironmentalNotificationService(btp, VehicleData(station_id=case["station_id"], station_type=5))
        t_base = clock.now
        shared_app = [None]
        events = []
        for i, e in enumerate(case["events"]):
            lat = int(e["lat"] * 1e7) + i * 13          # distinct positions per event
            lon = int(e["lon"] * 1e7) - i * 17
            events.append(dict(e, idx=i, ilat=lat, ilon=lon))
        if any(e["ilat"] < 0 or e["ilon"] < 0 for e in events):
            labels.add("negative-coordinate")
        order = sorted(events, key=lambda e: (e["start_ms"], e["idx"]))
        for e in order:
            world.run(until=t_base + e["start_ms"] / 1000.0)
            e["t0"] = clock.now
            pos = {"latitude": e["ilat"], "longitude": e["ilon"], "positionConfidenceEllipse": {"semiMajorConfidence": 4095, "semiMinorConfidence": 4095, "semiMajorOrientation": 3601},
                   "altitude": {"altitudeValue": 800001, "altitudeConfidence": "unavailable"}}
            try:
                if e["kind"] == "emergency_app":
                    # one application instance per station, as deployed: its settings are updated from event to event
                    if shared_app[0] is None:
                        shared_app[0] = EmergencyVehicleApproachingService(den, duration=e["duration"])
                    app = shared_app[0]
                    app.denm_duration = e["duration"]
                    app.denm_interval = e["interval"]
                    app.trigger_denm_sending({"lat": e["ilat"] / 1e7, "lon": e["ilon"] / 1e7})
                    # the application converts degrees back to 1/10 microdegree: recompute what it will use
                    e["ilat"], e["ilon"] = int(e["ilat"] / 1e7 * 10000000), int(e["ilon"] / 1e7 * 10000000)
                elif e["kind"] == "emergency_req":
                    req = DENRequest(denm_interval=e["interval"], detection_time=fac.its_ms_of_iso(clock.now), time_period=e["duration"], event_position=pos,
                                     relevance_distance="lessThan200m", relevance_traffic_direction="upstreamTraffic", rhs_cause_code="emergencyVehicleApproaching95",
                                     rhs_subcause_code=1, rhs_event_speed=30, rhs_vehicle_type=0)
                    den.denm_transmission_management.request_denm_sending(req)
                else:
                    req = DENRequest(detection_time=fac.its_ms_of_iso(clock.now), event_position=pos, lcrw_cause_code="collisionRisk97", lcrw_subcause_code=4)
                    den.denm_transmission_management.send_collision_risk_warning_denm(req)
            except Exception as ex:
                vs.append(violation(ID, "C17/request-raises:%s:%s" % (e["kind"], type(ex).__name__), "event %d %r raised %r" % (e["idx"], e, ex)))
        world.run()
        for th, err in world.errors:
            vs.append(violation(ID, "C17/repetition-thread-died", "DENM repetition thread died: %s" % err))
        # ---- analysis
        msgs = []
        for (t, req) in btp.requests:
            try:
                m = fac.coder("denm").decode(req.data)
            except Exception as ex:
                vs.append(violation(ID, "C17/denm-undecodable", "DENM at +%.3f s: %r" % (t - t_base, ex)))
                continue
            msgs.append((t, m, req))
            if req.destination_port != 2002:
                vs.append(violation(ID, "C17/wrong-port", "DENM handed over for port %d" % req.destination_port))
        by_event = {}
        for (t, m, req) in msgs:
            ep = m["denm"]["management"]["eventPosition"]
            key = (ep["latitude"], ep["longitude"])
            by_event.setdefault(key, []).append((t, m, req))
        known_keys = {(e["ilat"], e["ilon"]): e for e in events}
        for key in by_event:
            if key not in known_keys:
                vs.append(violation(ID, "C17/denm-for-unknown-event-position", "DENM with event position %r matches no requested event" % (key,)))
        action_ids = {}
        for key, e in known_keys.items():
            got = by_event.get(key, [])
            if e["kind"] == "collision":
                want_n, iv = 1, 0
            else:
                want_n, iv = math.ceil(e["duration"] / e["interval"]), e["interval"]
                if e["duration"] % e["interval"]:
                    labels.add("duration-not-multiple-of-interval")
            if len(got) != want_n:
                vs.append(violation(ID, "C17/repetition-count:%s" % ("too-few" if len(got) < want_n else "too-many"), "event %d (%s, interval %d ms, duration %d ms): %d DENMs, expected %d" % (
                    e["idx"], e["kind"], e["interval"], e["duration"], len(got), want_n)))
            for k, (t, m, req) in enumerate(got[:want_n]):
                want_t = e["t0"] + k * iv / 1000.0
                if abs(t - want_t) > 0.001:
                    vs.append(violation(ID, "C17/repetition-instant-wrong:%s" % ("first" if k == 0 else "later"), "event %d message %d at +%.3f s, expected +%.3f s" % (e["idx"], k, t - t_base, want_t - t_base)))
                    break
            ids = set()
            last_ref = None
            for (t, m, req) in got:
                mg = m["denm"]["management"]
                ids.add((mg["actionId"]["originatingStationId"], mg["actionId"]["sequenceNumber"]))
                if m["header"]["stationId"] != case["station_id"] or mg["actionId"]["originatingStationId"] != case["station_id"]:
                    vs.append(violation(ID, "C17/station-identity-wrong", "header station id %r, action id %r, station %d" % (m["header"]["stationId"], mg["actionId"], case["station_id"])))
                ht = req.gn_packet_transport_type
                if ht.header_type.value != 4 or getattr(ht.header_subtype, "value", ht.header_subtype) != 0:
                    vs.append(violation(ID, "C17/not-geo-broadcast-circle", "transport type %r" % (ht,)))
                if (req.gn_area.latitude, req.gn_area.longitude) != key or req.gn_area.a <= 0:
                    vs.append(violation(ID, "C17/area-not-centred-on-event", "area (%d,%d,a=%d) for event position %r" % (req.gn_area.latitude, req.gn_area.longitude, req.gn_area.a, key)))
                if last_ref is not None and mg["referenceTime"] < last_ref:
                    vs.append(violation(ID, "C17/reference-time-decreases", "reference time %d after %d" % (mg["referenceTime"], last_ref)))
                last_ref = mg["referenceTime"]
            if len(ids) > 1:
                vs.append(violation(ID, "C17/action-id-changes-within-event", "event %d used action ids %r" % (e["idx"], sorted(ids))))
            if ids:
                action_ids[e["idx"]] = ids
        seen = {}
        for idx, ids in action_ids.items():
            for a in ids:
                if a in seen and seen[a] != idx:
                    vs.append(violation(ID, "C17/action-id-shared-by-events", "events %d and %d both use action id %r" % (seen[a], idx, a)))
                seen[a] = idx
        # overlap label
        spans = [(e["t0"], e["t0"] + (0 if e["kind"] == "collision" else e["duration"] / 1000.0)) for e in events if "t0" in e]
        if any(a1 < b2 and a2 < b1 for i, (a1, b1) in enumerate(spans) for (a2, b2) in spans[i + 1:]):
            labels.add("overlapping-events")
        # ---- reception into the LDM
        if case["rx"]:
            vs.extend(check_reception(case, clock))
            labels.add("reception")
        nt = bool(labels & {"overlapping-events", "duration-not-multiple-of-interval", "negative-coordinate"})
        return Outcome(vs, labels=sorted(labels), nontrivial=nt)
    finally:
        clock.uninstall()


def check_reception(case, clock):
    from flexstack.btp.service_access_point import BTPDataIndication
    from flexstack.facilities.decentralized_environmental_notification_service.denm_reception_management import DENMReceptionManagement
    from flexstack.facilities.local_dynamic_map.factory import LDMFactory
    from flexstack.facilities.local_dynamic_map.ldm_classes import (AccessPermission, Circle, GeometricArea, Location, RegisterDataConsumerReq,
                                                                    RequestDataObjectsReq)
    import flexstack.facilities.local_dynamic_map.ldm_maintenance_reactive as lmr
    import flexstack.facilities.local_dynamic_map.ldm_service_reactive as lsr
    vs = []
    clock.install([lmr, lsr])
    ldm = LDMFactory().create_ldm(Location.initializer(latitude=10, longitude=10), "Reactive", "Reactive", "Dictionary")
    btp = fac.RecBTP(clock)
    rx = DENMReceptionManagement(fac.coder("denm"), btp, ldm)
    r = ldm.if_ldm_4.register_data_consumer(RegisterDataConsumerReq(application_id=1, access_permisions=(AccessPermission.DENM,), area_of_interest=GeometricArea(Circle(1000), None, None)))
    sent = []
    for i, d in enumerate(case["rx"]):
        mg = {"actionId": {"originatingStationId": d["sid"], "sequenceNumber": d["seq"]}, "detectionTime": fac.its_ms_of_iso(clock.now), "referenceTime": fac.its_ms_of_iso(clock.now),
              "eventPosition": {"latitude": d["lat"], "longitude": d["lon"] + i, "positionConfidenceEllipse": {"semiMajorConfidence": 4095, "semiMinorConfidence": 4095, "semiMajorOrientation": 3601},
                                "altitude": {"altitudeValue": 800001, "altitudeConfidence": "unavailable"}},
              "stationType": d["station_type"]}
        if d["validity"] is not None:
            mg["validityDuration"] = d["validity"]
        if d["termination"] is not None:
            mg["termination"] = d["termination"]
        denm = {"header": {"protocolVersion": 2, "messageId": 1, "stationId": d["sid"]}, "denm": {"management": mg}}
        try:
            data = fac.coder("denm").encode(denm)
        except Exception:
            continue
        try:
            rx.reception_callback(BTPDataIndication(destination_port=2002, data=data, length=len(data)))
        except Exception as ex:
            vs.append(violation(ID, "C17/reception-raises:%s" % type(ex).__name__, "valid DENM %r raised %r" % (mg, ex)))
            continue
        sent.append((d["lat"], d["lon"] + i, fac.coder("denm").decode(data)))
    resp = ldm.if_ldm_4.request_data_objects(RequestDataObjectsReq(application_id=1, data_object_type=(1,), priority=None, order=None, filter=None))
    stored = [(o["location"]["referencePosition"]["latitude"], o["location"]["referencePosition"]["longitude"], o["dataObject"]) for o in resp.data_objects]
    for (lat, lon, m) in sent:
        hit = [s for s in stored if s[2] == m]
        if not hit:
            vs.append(violation(ID, "C17/received-denm-not-in-ldm", "received DENM with event position (%d,%d) is not returned by the LDM (%d objects stored)" % (lat, lon, len(stored))))
        elif (hit[0][0], hit[0][1]) != (lat, lon):
            vs.append(violation(ID, "C17/received-denm-stored-at-wrong-location", "event position (%d,%d) stored at (%d,%d)" % (lat, lon, hit[0][0], hit[0][1])))
    return vs


def job(n, seed):
    return core.hyp_run(case_s(), run_case, n=n, seed=seed, kind="events")


def job_id_cycle(start):
    """65 536 successive events of one station (collision-risk single-shot path, encoding stubbed out): their action identifiers
    must be pairwise distinct - the 16-bit sequence number space is used completely before any identifier returns."""
    import flexstack.facilities.decentralized_environmental_notification_service.denm_transmission_management as dtm
    from flexstack.facilities.decentralized_environmental_notification_service.den_service import DecentralizedEnvironmentalNotificationService
    from flexstack.facilities.decentralized_environmental_notification_service.denm_transmission_management import DENRequest
    from flexstack.facilities.ca_basic_service.cam_transmission_management import VehicleData
    import flexstack.facilities.decentralized_environmental_notification_service.den_service as dsm
    from ..vclock import VClock
    from ..core import Partial
    part = Partial()
    clock = VClock(1_700_000_000.0)
    clock.install([])
    clock._set(dsm, "DENMCoder", lambda: fac.coder("denm"))
    try:
        den = DecentralizedEnvironmentalNotificationService(fac.RecBTP(clock), VehicleData(station_id=4242, station_type=5))
        tm = den.denm_transmission_management
        seen = []
        tm.transmit_denm = lambda d: seen.append((d.denm["denm"]["management"]["actionId"]["originatingStationId"], d.denm["denm"]["management"]["actionId"]["sequenceNumber"]))
        tm.sequence_number = start
        pos = {"latitude": 413000000, "longitude": 21000000, "positionConfidenceEllipse": {"semiMajorConfidence": 4095, "semiMinorConfidence": 4095, "semiMajorOrientation": 3601},
               "altitude": {"altitudeValue": 800001, "altitudeConfidence": "unavailable"}}
        req = DENRequest(detection_time=fac.its_ms_of_iso(clock.now), event_position=pos, lcrw_cause_code="collisionRisk97", lcrw_subcause_code=4)
        n = 65536
        for _ in range(n):
            tm.send_collision_risk_warning_denm(req)
        out = Outcome([], labels=["id-cycle:start=%d" % start], nontrivial=True)
        first = {}
        for i, aid in enumerate(seen):
            if aid in first:
                out.violations.append(violation(ID, "C17/action-id-reused-within-65536-events", "event %d and event %d (started at sequence number %d) carry the same action identifier %r" % (first[aid], i, start, aid)))
                break
            first[aid] = i
        if len(seen) != n:
            out.violations.append(violation(ID, "C17/repetition-count:too-few", "%d collision-risk requests produced %d DENMs" % (n, len(seen))))
        if any(not (0 <= a[1] <= 65535) for a in seen):
            out.violations.append(violation(ID, "C17/sequence-number-out-of-range", "sequence numbers outside 0..65535: %r" % sorted({a[1] for a in seen if not 0 <= a[1] <= 65535})[:5]))
        part.record({"start": start, "events": n}, out, kind="id_cycle")
        part.subcount("action-id-cycle", events=n)
    finally:
        clock.uninstall()
    return part


def jobs(tier, seed):
    k = 1 if tier == "quick" else 20
    js = [{"fn": "vf.props.c17:job", "args": {"n": 100 * k, "seed": seed * 1000 + s}} for s in range(16)]
    js += [{"fn": "vf.props.c17:job_id_cycle", "args": {"start": st_}} for st_ in ((0, 65530) if tier == "quick" else (0, 1, 32768, 65530, 65535))]
    return js


def replay(kind, case):
    if kind == "id_cycle":
        part = job_id_cycle(case["start"])
        return Outcome(part.violations, labels=list(part.labels), nontrivial=True)
    return run_case(case)

"""C13 - LDM queries return exactly the matching objects, identically on both back-ends."""
from __future__ import annotations

import os
import shutil

from hypothesis import strategies as st

from .. import core
from ..core import Outcome, violation

ID = "C13"
RULE = ("Stores of 0..25 CAM / DENM / VAM / POI message dictionaries (mandatory containers always, optional containers drawn, small value "
        "domains so that filters split the store) are added through IF.LDM.3 to two real LDMs (dictionary and TinyDB back-end); requests "
        "through IF.LDM.4 with type selections (single, multiple, empty), filters of one or two statements over attribute paths present in "
        "all / some / none of the objects, all 8 operators, reference values of matching type, other type and boundary-equal, joined by "
        "and/or, and 0..2 order keys with directions. Oracle: brute-force evaluator (type selected and filter true; a missing attribute or "
        "an incomparable pair makes that statement false), multiset equality of the returned messages, order = sorted by the key tuple with "
        "the requested directions (ties free), and both back-ends return the same multiset. Non-trivial = store with >= 2 objects where the "
        "filter splits them, or an object lacks the attribute, or two types are present.")
ASSUMPTIONS = [
    "order verdicts only when every returned object carries every order attribute (placement of objects lacking it is unspecified)",
    "messages are JSON-serialisable dictionaries (the TinyDB back-end stores JSON); CHOICE tuples / byte strings of decoded messages are outside this check",
    "like / notlike: substring for strings, membership for lists; an object lacking the attribute matches neither",
]

TYPES = {"cam": 2, "denm": 1, "vam": 16, "poi": 3}
OPS = ["==", "!=", ">", "<", ">=", "<=", "like", "notlike"]


def obj_s():
    small = st.integers(0, 4)
    role = st.sampled_from(["default", "emergency", "publicTransport", "rescue"])
    cam = st.fixed_dictionaries({
        "header": st.fixed_dictionaries({"protocolVersion": st.just(2), "messageId": st.just(2), "stationId": small}),
        "cam": st.fixed_dictionaries({"generationDeltaTime": st.integers(0, 6), "camParameters": st.fixed_dictionaries(
            {"basicContainer": st.fixed_dictionaries({"stationType": small, "referencePosition": st.fixed_dictionaries({"latitude": st.integers(-3, 3), "longitude": st.integers(-3, 3)})})},
            optional={"lowFrequencyContainer": st.fixed_dictionaries({"vehicleRole": role, "exteriorLights": small, "pathHistory": st.lists(small, max_size=3)}),
                      "specialVehicleContainer": st.fixed_dictionaries({"lightBarSirenInUse": small})})})})
    vam = st.fixed_dictionaries({
        "header": st.fixed_dictionaries({"protocolVersion": st.just(3), "messageId": st.just(16), "stationId": small}),
        "vam": st.fixed_dictionaries({"generationDeltaTime": st.integers(0, 6), "vamParameters": st.fixed_dictionaries(
            {"basicContainer": st.fixed_dictionaries({"stationType": small, "referencePosition": st.fixed_dictionaries({"latitude": st.integers(-3, 3), "longitude": st.integers(-3, 3)})})},
            optional={"vruLowFrequencyContainer": st.fixed_dictionaries({"profile": role}), "vruClusterOperationContainer": st.fixed_dictionaries({"clusterJoinInfo": st.fixed_dictionaries({"clusterId": small})})})})})
    denm = st.fixed_dictionaries({
        "header": st.fixed_dictionaries({"protocolVersion": st.just(2), "messageId": st.just(1), "stationId": small}),
        "denm": st.fixed_dictionaries({"management": st.fixed_dictionaries({"actionId": st.fixed_dictionaries({"originatingStationId": small, "sequenceNumber": small}), "stationType": small,
                                                                             "eventPosition": st.fixed_dictionaries({"latitude": st.integers(-3, 3), "longitude": st.integers(-3, 3)})},
                                                                            optional={"validityDuration": small})},
                                      optional={"situation": st.fixed_dictionaries({"informationQuality": small, "causeCode": role})})})
    poi = st.fixed_dictionaries({"header": st.fixed_dictionaries({"stationId": small}), "poi": st.fixed_dictionaries({"name": role, "rank": small})})
    return st.one_of(cam, cam, vam, denm, poi)


PATHS = ["header.stationId", "header.messageId", "header.protocolVersion", "cam.generationDeltaTime", "cam.camParameters.basicContainer.stationType",
         "cam.camParameters.basicContainer.referencePosition.latitude", "cam.camParameters.lowFrequencyContainer.vehicleRole", "cam.camParameters.lowFrequencyContainer.exteriorLights",
         "cam.camParameters.lowFrequencyContainer.pathHistory", "cam.camParameters.specialVehicleContainer.lightBarSirenInUse", "vam.generationDeltaTime",
         "vam.vamParameters.basicContainer.stationType", "vam.vamParameters.vruLowFrequencyContainer.profile", "vam.vamParameters.vruClusterOperationContainer.clusterJoinInfo.clusterId",
         "denm.management.stationType", "denm.management.validityDuration", "denm.situation.causeCode", "denm.management.actionId.sequenceNumber", "poi.name", "poi.rank",
         "cam.camParameters", "no.such.path", "header"]
REFS = st.one_of(st.integers(-3, 6), st.sampled_from(["default", "emergency", "e", "rescue", "", "2"]), st.sampled_from([2.5, True, None]))


def stmt_s():
    return st.fixed_dictionaries({"attr": st.sampled_from(PATHS), "op": st.sampled_from(OPS), "ref": REFS})


def query_s():
    return st.fixed_dictionaries({
        "types": st.sampled_from([["cam"], ["vam"], ["denm"], ["cam", "vam"], ["cam", "denm", "vam", "poi"], ["poi", "cam"], []]),
        "f1": st.none() | stmt_s(), "logic": st.sampled_from(["and", "or"]), "f2": st.none() | stmt_s(),
        "order": st.lists(st.tuples(st.sampled_from(["header.stationId", "stationId", "timestamp", "cam.generationDeltaTime", "header.messageId", "application_id"]), st.sampled_from(["asc", "desc"])), max_size=2),
    })


def case_s():
    return st.fixed_dictionaries({"objects": st.lists(obj_s(), max_size=25), "queries": st.lists(query_s(), min_size=1, max_size=6)})


# ---- brute-force evaluator ----------------------------------------------------------------------
MISSING = object()


def get_path(msg, path):
    cur = msg
    for part in path.split("."):
        if isinstance(cur, dict) and part in cur:
            cur = cur[part]
        else:
            return MISSING
    return cur


def stmt_true(msg, s_):
    v = get_path(msg, s_["attr"])
    if v is MISSING:
        return False
    op, ref = s_["op"], s_["ref"]
    try:
        if op == "==":
            return v == ref
        if op == "!=":
            return v != ref
        if op == ">":
            return v > ref
        if op == "<":
            return v < ref
        if op == ">=":
            return v >= ref
        if op == "<=":
            return v <= ref
        if isinstance(v, str):
            res = str(ref) in v
        elif isinstance(v, (list, tuple, set)):
            res = ref in v
        else:
            res = False
        return res if op == "like" else not res
    except TypeError:
        return False


def matches(msg, q):
    kind = next((t for t in TYPES if t in msg), None)
    if kind not in q["types"]:
        return False
    if q["f1"] is None:
        return True
    a = stmt_true(msg, q["f1"])
    if q["f2"] is None:
        return a
    b = stmt_true(msg, q["f2"])
    return (a and b) if q["logic"] == "and" else (a or b)


def key_of(rec, attr):
    if "." in attr:
        v = get_path(rec["dataObject"], attr)
    else:
        v = _find(rec, attr)
    return v


def _find(d, name):
    for k, v in d.items():
        if k == name:
            return v
        if isinstance(v, dict):
            r = _find(v, name)
            if r is not MISSING:
                return r
    return MISSING


def canon(x):
    return core.jdump(x)


def run_case(case):
    from flexstack.facilities.local_dynamic_map.factory import LDMFactory
    from flexstack.facilities.local_dynamic_map.ldm_classes import (AccessPermission, AddDataProviderReq, Circle, ComparisonOperators, Filter, FilterStatement, GeometricArea, Location,
                                                                    LogicalOperators, OrderingDirection, OrderTupleValue, RegisterDataConsumerReq, RegisterDataProviderReq,
                                                                    RequestDataObjectsReq, RequestedDataObjectsResult, TimestampIts, TimeValidity)
    import flexstack.facilities.local_dynamic_map.ldm_maintenance as lm
    import flexstack.facilities.local_dynamic_map.ldm_maintenance_reactive as lmr
    import flexstack.facilities.local_dynamic_map.ldm_service_reactive as lsr
    from ..vclock import VClock, its_ms

    opmap = {"==": ComparisonOperators.EQUAL, "!=": ComparisonOperators.NOT_EQUAL, ">": ComparisonOperators.GREATER_THAN, "<": ComparisonOperators.LESS_THAN,
             ">=": ComparisonOperators.GREATER_THAN_OR_EQUAL, "<=": ComparisonOperators.LESS_THAN_OR_EQUAL, "like": ComparisonOperators.LIKE, "notlike": ComparisonOperators.NOT_LIKE}
    clock = VClock(1_700_000_000.0)
    clock.install([lm, lmr, lsr])
    work = os.path.join(core.HOME, ".work", "C13", "w%d" % os.getpid())
    os.makedirs(work, exist_ok=True)
    old_cwd = os.getcwd()
    vs = []
    labels = set()
    try:
        os.chdir(work)
        for f in os.listdir(work):
            os.remove(os.path.join(work, f))
        ldms = {}
        for db in ("Dictionary", "TinyDB"):
            l = LDMFactory().create_ldm(Location.initializer(latitude=413000000, longitude=21000000), "Reactive", "Reactive", db)
            for app in (1, 2, 3, 16):
                l.if_ldm_3.register_data_provider(RegisterDataProviderReq(application_id=app, access_permissions=(AccessPermission(app),), time_validity=TimeValidity(100)))
            l.if_ldm_4.register_data_consumer(RegisterDataConsumerReq(application_id=1, access_permisions=(AccessPermission.DENM,), area_of_interest=GeometricArea(Circle(1000), None, None)))
            ldms[db] = l
        model = []
        for i, msg in enumerate(case["objects"]):
            kind = next(t for t in TYPES if t in msg)
            ts = its_ms(clock.now) + i
            for db, l in ldms.items():
                r = l.if_ldm_3.add_provider_data(AddDataProviderReq(application_id=TYPES[kind], timestamp=TimestampIts(ts), location=Location.location_builder_circle(413100000 + i, 21100000, 5000, 0),
                                                                    data_object=msg, time_validity=TimeValidity(1000)))
                if r.data_object_id == -1:
                    vs.append(violation(ID, "C13/add-refused:%s" % db, "object %d refused by the %s back-end" % (i, db)))
            model.append({"msg": msg, "ts": ts, "app": TYPES[kind]})
        kinds = {next(t for t in TYPES if t in m["msg"]) for m in model}
        if len(kinds) >= 2:
            labels.add("two-types")
        for qi, q in enumerate(case["queries"]):
            want = [m for m in model if matches(m["msg"], q)]
            sel = [m for m in model if next(t for t in TYPES if t in m["msg"]) in q["types"]]
            if q["f1"] is not None and 0 < len(want) < len(sel):
                labels.add("filter-splits")
            if q["f1"] is not None and any(get_path(m["msg"], q["f1"]["attr"]) is MISSING for m in sel) and sel:
                labels.add("attribute-missing-in-some")
            flt = None
            if q["f1"] is not None:
                s1 = FilterStatement(q["f1"]["attr"], opmap[q["f1"]["op"]], q["f1"]["ref"])
                if q["f2"] is not None:
                    flt = Filter(s1, LogicalOperators.AND if q["logic"] == "and" else LogicalOperators.OR, FilterStatement(q["f2"]["attr"], opmap[q["f2"]["op"]], q["f2"]["ref"]))
                else:
                    flt = Filter(s1)
            qq = q if q["f1"] is not None else dict(q, f2=None)
            want = [m for m in model if matches(m["msg"], qq)]
            order = [OrderTupleValue(a, OrderingDirection.ASCENDING if d == "asc" else OrderingDirection.DESCENDING) for a, d in q["order"]] or None
            results = {}
            for db, l in ldms.items():
                try:
                    r = l.if_ldm_4.request_data_objects(RequestDataObjectsReq(application_id=1, data_object_type=tuple(TYPES[t] for t in q["types"]), priority=None, order=order, filter=flt))
                except Exception as e:
                    vs.append(violation(ID, "C13/request-raises:%s:%s" % (db, type(e).__name__), "query %d %r on %s raised %r" % (qi, q, db, e)))
                    continue
                if r.result != RequestedDataObjectsResult.SUCCEED:
                    vs.append(violation(ID, "C13/request-refused:%s" % db, "query %d answered %s" % (qi, r.result)))
                    continue
                recs = list(r.data_objects)
                results[db] = recs
                got = sorted(canon((x.get("dataObject"), x.get("timestamp"))) for x in recs)
                exp = sorted(canon((m["msg"], m["ts"])) for m in want)
                if got != exp:
                    extra = len([g for g in got if g not in exp])
                    missing = len([e for e in exp if e not in got])
                    cls = "empty-although-matches" if not got and exp else ("extra" if extra and not missing else ("missing" if missing and not extra else "different"))
                    opk = "unfiltered" if q["f1"] is None else (q["f1"]["op"] if q["f2"] is None else q["logic"])
                    vs.append(violation(ID, "C13/result-set-wrong:%s:%s:%s" % (db, cls, opk), "query %d %r on %s: %d objects returned, %d expected (%d extra, %d missing)" % (qi, _short(q), db, len(got), len(exp), extra, missing)))
                    continue
                # order
                if q["order"] and recs:
                    keys = [[key_of(x, a) for a, _ in q["order"]] for x in recs]
                    if all(k is not MISSING and isinstance(k, (int, float)) and not isinstance(k, bool) for row in keys for k in row):
                        def rank(row):
                            return tuple((k if d == "asc" else -k) for k, (_, d) in zip(row, q["order"]))
                        ranks = [rank(row) for row in keys]
                        if ranks != sorted(ranks):
                            vs.append(violation(ID, "C13/order-wrong:%s:%s" % (db, "+".join(d for _, d in q["order"])), "query %d on %s: order %r gives key rows %r" % (qi, db, q["order"], keys[:8])))
                        labels.add("ordered")
            if len(results) == 2:
                a = sorted(canon((x.get("dataObject"), x.get("timestamp"))) for x in results["Dictionary"])
                b = sorted(canon((x.get("dataObject"), x.get("timestamp"))) for x in results["TinyDB"])
                if a != b and not vs:
                    vs.append(violation(ID, "C13/back-ends-disagree", "query %d %r: dictionary returns %d objects, TinyDB %d" % (qi, _short(q), len(a), len(b))))
        nt = len(model) >= 2 and bool(labels & {"filter-splits", "attribute-missing-in-some", "two-types"})
        return Outcome(vs, labels=sorted(labels), nontrivial=nt)
    finally:
        os.chdir(old_cwd)
        try:
            for l in locals().get("ldms", {}).values():
                db = l.ldm_maintenance.data_containers
                if hasattr(db, "database") and hasattr(db.database, "close"):
                    db.database.close()
        except Exception:
            pass
        shutil.rmtree(work, ignore_errors=True)
        clock.uninstall()


def _short(q):
    return {"types": q["types"], "f1": q["f1"], "logic": q["logic"] if q["f2"] else None, "f2": q["f2"], "order": q["order"]}


def job(n, seed):
    return core.hyp_run(case_s(), run_case, n=n, seed=seed, kind="store+queries")


def jobs(tier, seed):
    k = 1 if tier == "quick" else 30
    return [{"fn": "vf.props.c13:job", "args": {"n": 250 * k, "seed": seed * 1000 + s}} for s in range(16)]


def replay(kind, case):
    return run_case(case)

"""C05 - Honestly signed messages are accepted by every station sharing the trust root."""
from __future__ import annotations

from hypothesis import strategies as st

from .. import core, pki, refcodec as rc
from ..core import Outcome, violation

ID = "C05"
RULE = ("Histories of 1..40 steps on 2..4 real secured stations (each with its own authorization ticket from one AA, optionally one "
        "ticket restricted to CAM; receivers knowing only root + AA or pre-loaded with the peers' tickets) joined by the simulated ether "
        "on a virtual clock: station i emits CAM (SHB), VAM (SHB), DENM (GBC with generation location) or a generic-profile message "
        "(ITS-AID 999) with drawn payload, clock advances 0..3 s with emphasis on 0.9..1.1 s, stations join later. Oracle: (a) every "
        "on-air receiver gets the payload unchanged iff the packet carries the certificate or the receiver already holds the ticket "
        "(tracked by a model of who learned what), and after a receiver failed on a digest its next CAM/VAM reaching the sender obliges "
        "the sender's next CAM/VAM to carry the certificate (two exchanges); (b) every emitted secured packet is decoded with the OER "
        "coder and checked against the TS 103 097 clause 7.1 profile of its type (signer choice, digest value, mandatory/forbidden "
        "header fields, generationTime = virtual ITS time, generationLocation = ego position, payload = the GN packet). Non-trivial = a "
        "receiver first sees a digest of an unknown ticket (P2PCD path), or a certificate/digest decision within 100 ms of the 1 s boundary.")
ASSUMPTIONS = [
    "certificate inclusion is checked one-directionally: (more than 1 s since the certificate was last on air in any message of the station, or a peer asked) implies certificate; extra inclusions are allowed",
    "'a peer asked' = the station successfully verified a CAM/VAM whose inlineP2pcdRequest contains its HashedId3 since its last certificate inclusion; a station that met a digest of an unknown ticket includes its own certificate in its next CAM/VAM (the request it carries must be verifiable by the peer it is meant for)",
    "stations only emit message types covered by their ticket",
]

MIDS = [bytes([2, 0, 0, 0, 0x80, i + 1]) for i in range(4)]
PORT = {"cam": 2001, "vam": 2018, "denm": 2002, "other": 3000}
PSID = {"cam": 36, "vam": 638, "denm": 37, "other": 999}


def case_s():
    def build(n):
        step = st.one_of(
            st.fixed_dictionaries({"op": st.just("emit"), "s": st.integers(0, n - 1), "t": st.sampled_from(["cam", "cam", "cam", "vam", "denm", "other"]), "plen": st.sampled_from([0, 1, 30, 200])}),
            st.fixed_dictionaries({"op": st.just("emit"), "s": st.integers(0, n - 1), "t": st.sampled_from(["cam", "cam", "cam", "vam", "denm", "other"]), "plen": st.sampled_from([0, 1, 30, 200])}),
            st.fixed_dictionaries({"op": st.just("adv"), "ms": st.sampled_from([0, 100, 500, 900, 950, 999, 1000, 1001, 1050, 1100, 2000, 3000])}),
            st.fixed_dictionaries({"op": st.just("join"), "s": st.integers(0, n - 1)}),
        )
        def scen(args):
            snd, dr, t1, t2, gap1, gap2, t3 = args
            r = (snd + dr) % n
            # sender on air with certificate, r joins, sender's digest message, r's own CAM/VAM (asks), sender's next CAM/VAM
            return [{"op": "leave", "s": r}, {"op": "emit", "s": snd, "t": "cam", "plen": 5}, {"op": "adv", "ms": gap1}, {"op": "join", "s": r},
                    {"op": "emit", "s": snd, "t": t1, "plen": 9}, {"op": "adv", "ms": gap2}, {"op": "emit", "s": r, "t": t2, "plen": 3},
                    {"op": "emit", "s": snd, "t": t3, "plen": 7}, {"op": "emit", "s": snd, "t": "other", "plen": 2}]
        scenario = st.tuples(st.integers(0, n - 1), st.integers(1, n - 1), st.sampled_from(["cam", "vam", "other"]), st.sampled_from(["cam", "vam"]),
                             st.sampled_from([0, 100, 500, 900]), st.sampled_from([0, 50, 90]), st.sampled_from(["cam", "vam"])).map(scen)
        def scen_bystander(args):
            # a is asked for its certificate by the late joiner c; before a's next CAM/VAM it verifies a CAM/VAM of the bystander b whose
            # own inline request names only c's ticket (b missed c's certificate): the pending request for a's certificate must survive
            perm, t1, t2, t3, t4, g = args
            a, b, c = perm
            return [{"op": "leave", "s": c}, {"op": "emit", "s": a, "t": "cam", "plen": 4}, {"op": "emit", "s": b, "t": "cam", "plen": 4},
                    {"op": "leave", "s": b}, {"op": "join", "s": c}, {"op": "emit", "s": c, "t": "cam", "plen": 4}, {"op": "join", "s": b},
                    {"op": "adv", "ms": g}, {"op": "emit", "s": c, "t": t1, "plen": 2}, {"op": "emit", "s": a, "t": t2, "plen": 2},
                    {"op": "adv", "ms": g}, {"op": "emit", "s": c, "t": t3, "plen": 3}, {"op": "emit", "s": b, "t": t4, "plen": 3},
                    {"op": "emit", "s": a, "t": "cam", "plen": 6}, {"op": "emit", "s": a, "t": "other", "plen": 1}]
        cv = st.sampled_from(["cam", "vam"])
        bystander = st.tuples(st.permutations(list(range(n))).map(lambda p_: p_[:3]), cv, st.sampled_from(["cam", "vam", "other"]), cv, cv,
                              st.sampled_from([0, 50, 100, 300])).map(scen_bystander) if n >= 3 else scenario
        single = step.map(lambda x: [x])
        steps = st.lists(st.one_of(single, single, single, scenario, bystander), min_size=1, max_size=25).map(lambda ll: [x for l in ll for x in l][:40])
        return st.fixed_dictionaries({"n": st.just(n), "preload": st.sampled_from([False, False, False, True]), "restricted_last": st.booleans(),
                                      # the last station holds a ticket of the root's second AA and does not know the first one: it asks for
                                      # that AA certificate, which the others then distribute in requestedCertificate
                                      "foreign_last": st.sampled_from([False, False, True]),
                                      "late": st.lists(st.integers(0, n - 1), max_size=3), "steps": steps})
    return st.integers(2, 4).flatmap(build)


def run_case(case):
    from flexstack.geonet import router as gr, location_table as ltm
    from flexstack.security import sign_service as ss
    from ..stack import Ether, secured_request, secured_station
    from ..vclock import VClock
    from .c01 import MuteEther

    n = case["n"]
    z = pki.Zoo.get()
    clock = VClock(pki.T0)
    clock.install([gr, ltm, ss])
    vs = []
    labels = set()
    try:
        eth = MuteEther()
        ats = [z.ats[i] for i in range(n)]
        if case["restricted_last"]:
            ats[n - 1] = z.at36
        foreign = n - 1 if case.get("foreign_last") else None
        if foreign is not None:
            ats[foreign] = z.at_under_all()
        sts = []
        for i in range(n):
            known = [a for j, a in enumerate(ats) if j != i] if case["preload"] else []
            s = secured_station(eth, MIDS[i], ats[i], known_ats=known, aas=[z.aa_all] if i == foreign else [z.aa, z.aa_all])
            s.set_position(clock.now, 413000000 + 700 * i, 21000000 - 500 * i)
            sts.append(s)
        eth.connect_all()
        for s_ in set(case["late"]):
            eth.muted.add(s_)
        dig = [pki.hashedid8(a.certificate) for a in ats]
        knows = [[(case["preload"] and i != j) for j in range(n)] for i in range(n)]   # knows[r][s]
        failed = [[False] * n for _ in range(n)]       # r failed on a digest of s and has not learned it yet
        asked = [False] * n                             # a peer asked s for its certificate
        unknown_seen = [False] * n                      # s met a digest of a ticket it does not hold: the peer is new to it and, most likely, it to the peer
        last_cert = [None] * n                          # virtual time the certificate of s was last on air

        for step_i, stp in enumerate(case["steps"]):
            if stp["op"] == "adv":
                clock.advance(stp["ms"] / 1000.0)
                continue
            if stp["op"] == "join":
                eth.muted.discard(stp["s"])
                continue
            if stp["op"] == "leave":
                eth.muted.add(stp["s"])
                continue
            s, t = stp["s"], stp["t"]
            if s in eth.muted:
                continue
            if case["restricted_last"] and foreign is None and s == n - 1 and t != "cam":
                continue
            snd = sts[s]
            payload = bytes((11 * i + step_i + s) % 256 for i in range(stp["plen"]))
            n_log = len(eth.log)
            before = [len(r.btp_indications[PORT[t]]) for r in sts]
            try:
                snd.call(snd.gn.gn_data_request, secured_request(t, payload))
            except Exception as e:
                vs.append(violation(ID, "C05/signing-raises:%s:%s" % (t, type(e).__name__), "step %d: station %d could not emit %s: %r" % (step_i, s, t, e)))
                break
            frames = [p for (x, p) in eth.log[n_log:] if x == s]
            if len(frames) != 1:
                vs.append(violation(ID, "C05/emission-count:%s" % t, "step %d: %s request produced %d frames" % (step_i, t, len(frames))))
                break
            frame = frames[0]
            # ---------------- (b) profile of the emitted packet
            info = None
            try:
                info = check_profile(frame, t, payload, snd, dig[s], clock, vs, step_i)
            except Exception as e:
                vs.append(violation(ID, "C05/emitted-packet-undecodable:%s" % t, "step %d: %r" % (step_i, e)))
                break
            carries_cert = info["signer"] == "certificate"
            # certificate obligation (CAM / VAM)
            if t in ("cam", "vam"):
                gap = None if last_cert[s] is None else clock.now - last_cert[s]
                must = asked[s] or unknown_seen[s] or gap is None or gap > 1.0 + 1e-6
                if gap is not None and abs(gap - 1.0) <= 0.1:
                    labels.add("gap-near-1s")
                if must and not carries_cert:
                    why = "peer-asked" if asked[s] else ("unknown-peer-seen" if unknown_seen[s] else ("first-message" if gap is None else "more-than-1s"))
                    vs.append(violation(ID, "C05/certificate-not-included:%s" % why, "step %d: %s of station %d signed with digest although %s (gap %r s)" % (step_i, t, s, why, gap)))
            if carries_cert:
                last_cert[s] = clock.now
                asked[s] = False
                unknown_seen[s] = False
            eth.pump()
            # ---------------- (a) acceptance at every receiver
            if "requestedCertificate" in info.get("fields", ()):
                labels.add("requestedCertificate-on-air")
            for r in range(n):
                if r == s or r in eth.muted:
                    continue
                if r == foreign and s != foreign:
                    continue            # the foreign station does not hold the sender's AA: whether and when it can accept is not judged
                got = sts[r].btp_indications[PORT[t]][before[r]:]
                expect = carries_cert or knows[r][s]
                if expect:
                    if len(got) != 1 or bytes(got[0].data) != payload:
                        vs.append(violation(ID, "C05/honest-message-not-accepted:%s:%s" % (t, "certificate" if carries_cert else "digest-known-ticket"),
                                            "step %d: %s of station %d (%s signer) -> station %d got %d indications%s" % (
                                                step_i, t, s, info["signer"], r, len(got), "" if len(got) != 1 else " with altered payload")))
                    if carries_cert:
                        if not knows[r][s]:
                            labels.add("ticket-learned-from-certificate")
                        knows[r][s] = True
                        failed[r][s] = False
                else:
                    if got:
                        vs.append(violation(ID, "C05/digest-of-unknown-ticket-accepted", "step %d: station %d accepted a digest-signed %s of station %d whose ticket it never saw" % (step_i, r, t, s)))
                    failed[r][s] = True
                    unknown_seen[r] = True          # TS 103 097 7.1.1: r's next CAM/VAM carries r's own certificate (and the request for s's)
                    labels.add("digest-of-unknown-ticket")
                # p2pcd: s's CAM/VAM that r verified may carry requests for r's certificate
                if t in ("cam", "vam") and expect and dig[r][-3:] in info["inline"]:
                    asked[r] = True
                    labels.add("p2pcd-request-heard")
                elif t in ("cam", "vam") and expect and info["inline"] and asked[r]:
                    labels.add("foreign-p2pcd-request-while-asked")
            # a station that failed on some sender must ask in its own next CAM/VAM
            if t in ("cam", "vam"):
                for x in range(n):
                    if x != s and failed[s][x] and dig[x][-3:] not in info["inline"]:
                        vs.append(violation(ID, "C05/p2pcd-request-missing", "step %d: station %d does not hold the ticket of station %d (failed on its digest) but its %s carries no inline request for it" % (step_i, s, x, t)))
            for st_ in sts:
                for e in st_.errors:
                    vs.append(violation(ID, "C05/reception-raises:%s" % e[0], "station %d raised %s: %s" % (st_.index, e[0], e[1])))
                st_.errors.clear()
            if vs:
                break
        nontrivial = bool(labels & {"digest-of-unknown-ticket", "gap-near-1s", "requestedCertificate-on-air"})
        return Outcome(vs, labels=sorted(labels), nontrivial=nontrivial)
    finally:
        clock.uninstall()


def check_profile(frame, t, payload, snd, own_digest, clock, vs, step_i):
    b = rc.parse_basic(frame[:4])
    if b["nh"] != rc.NH_SECURED:
        vs.append(violation(ID, "C05/emitted-unsecured:%s" % t, "step %d: %s left the station without security envelope" % (step_i, t)))
        return {"signer": "none", "inline": [], "fields": []}
    d = pki.coder().decode_etsi_ts_103097_data_signed(frame[4:])
    sd = d["content"][1]
    hi = sd["tbsData"]["headerInfo"]
    signer = sd["signer"]
    keys = set(hi)
    want_gen = int(round((clock.now - pki.ITS_EPOCH + pki.LEAP) * 1000)) * 1000

    def bad(sig, msg):
        vs.append(violation(ID, "C05/profile:%s:%s" % (t, sig), "step %d: %s" % (step_i, msg)))

    if d["protocolVersion"] != 3 or d["content"][0] != "signedData" or sd["hashId"] != "sha256":
        bad("envelope", "protocolVersion %r content %r hashId %r" % (d["protocolVersion"], d["content"][0], sd["hashId"]))
    if hi.get("psid") != PSID[t]:
        bad("psid", "psid %r, expected %d" % (hi.get("psid"), PSID[t]))
    if "generationTime" not in hi:
        bad("generationTime-missing", "no generationTime")
    elif abs(hi["generationTime"] - want_gen) > 1000:
        bad("generationTime-value", "generationTime %d, virtual ITS time %d us" % (hi["generationTime"], want_gen))
    forbidden_always = {"expiryTime", "p2pcdLearningRequest", "missingCrlIdentifier", "encryptionKey"}
    if keys & forbidden_always:
        bad("forbidden-field", "forbidden header fields %s" % sorted(keys & forbidden_always))
    if t in ("cam", "vam"):
        if keys - {"psid", "generationTime", "inlineP2pcdRequest", "requestedCertificate"}:
            bad("extra-field", "header fields %s not allowed in the CAM/VAM profile" % sorted(keys - {"psid", "generationTime", "inlineP2pcdRequest", "requestedCertificate"}))
    elif t == "denm":
        if keys != {"psid", "generationTime", "generationLocation"}:
            bad("fields", "DENM header fields %s" % sorted(keys))
        else:
            ego = snd.gn.ego_position_vector
            gl = hi["generationLocation"]
            if (gl["latitude"], gl["longitude"]) != (ego.latitude, ego.longitude):
                bad("generationLocation-value", "generationLocation %r, ego position (%d,%d)" % (gl, ego.latitude, ego.longitude))
        if signer[0] != "certificate" or len(signer[1]) != 1:
            bad("signer-not-single-certificate", "DENM signer %s (%s entries)" % (signer[0], len(signer[1]) if signer[0] == "certificate" else "-"))
    else:
        if keys != {"psid", "generationTime"}:
            bad("fields", "generic-profile header fields %s" % sorted(keys))
    if signer[0] == "digest":
        if signer[1] != own_digest:
            bad("digest-value", "signer digest %s is not the HashedId8 of the station's ticket %s" % (signer[1].hex(), own_digest.hex()))
    elif signer[0] == "certificate":
        if len(signer[1]) != 1 or pki.hashedid8(signer[1][0]) != own_digest:
            bad("certificate-value", "signer certificate is not the station's ticket")
    else:
        bad("signer-choice", "signer choice %r" % (signer[0],))
    inner = sd["tbsData"]["payload"]["data"]["content"]
    if inner[0] != "unsecuredData":
        bad("payload-choice", "payload content %r" % (inner[0],))
    else:
        p = rc.parse_inner(inner[1])
        if p["payload"] != rc.build_btp(PORT[t], 0) + payload:
            bad("payload-value", "signed payload does not contain the requested data")
    # the signature verifies under the ticket key
    cert = snd.lib.own_certificates[own_digest].certificate
    if not pki.raw_verify(cert["toBeSigned"]["verifyKeyIndicator"][1], pki.coder().encode_to_be_signed_data(sd["tbsData"]), sd["signature"]):
        bad("signature", "signature does not verify under the station's ticket key")
    return {"signer": signer[0], "inline": list(hi.get("inlineP2pcdRequest", [])), "fields": sorted(keys)}


def job(n, seed):
    return core.hyp_run(case_s(), run_case, n=n, seed=seed, kind="history")


def jobs(tier, seed):
    k = 1 if tier == "quick" else 20
    return [{"fn": "vf.props.c05:job", "args": {"n": 120 * k, "seed": seed * 1000 + s}} for s in range(16)]


def replay(kind, case):
    return run_case(case)

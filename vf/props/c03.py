"""C03 - Secured packets are delivered only if authentic and untampered.

Histories of genuine, mutated, forged, unsecured and replayed packets fed to a real secured
receiver; every delivery is re-verified by an independent verifier (delivered => genuine)."""
from __future__ import annotations

import copy

from hypothesis import strategies as st

from .. import core, pki, refcodec as rc
from ..core import Outcome, Partial, violation, H, B

ID = "C03"
RULE = ("Histories of 1..30 steps on one receiving station (security ENABLED, trusting one root + AA): genuine secured packets produced by "
        "two real sender stations (CAM/VAM profile SHB with certificate or digest signer, DENM GBC, generic-profile SHB), byte-level "
        "mutations of captured genuine packets (single-bit flip at a drawn position, byte substitution, truncation, extension), "
        "field-level mutations of the decoded EtsiTs103097Data re-encoded with the OER coder (payload, psid, generationTime, "
        "generationLocation, signer digest / certificate fields / whole certificate, r, s, hashId, protocolVersion), attacker-signed "
        "packets (own self-made chain as certificate / digest / 2- and 3-certificate lists, genuine digest or certificate with attacker "
        "signature, empty list), unsecured packets and replays, in any order. A separate job flips every single bit of 5 packet "
        "shapes (enumerated, not sampled). Oracle (delivered => genuine): every GN indication must correspond to a fed frame whose decoded tbsData verifies with "
        "python-ecdsa under the key of a genuine zoo ticket named by its signer, and the delivered bytes must be the signed payload. "
        "Non-trivial = forged/mutated frame processed after >= 1 genuine frame was accepted, or a field-level mutation that still OER-decodes.")
ASSUMPTIONS = [
    "a bit flip that leaves the decoded structure (tbsData, signer, signature) verifying is not a forgery: the basic header (RHL, LT) is not signed content",
    "ECDSA (r, n-s) malleability is not generated (inherent to ECDSA, not a property of this code)",
    "trusted base of the oracle: asn1tools + the repository's ASN.1 text (decode/encode) and python-ecdsa",
]

RX = b"\x02\x00\x00\x00\x70\x01"
SENDERS = [b"\x02\x00\x00\x00\x70\x11", b"\x02\x00\x00\x00\x70\x12"]
SHAPES = ["cam", "cam", "vam", "denm", "other"]


def mutation_s():
    frac = st.floats(0, 1, exclude_max=True).map(lambda x: round(x, 5))
    return st.one_of(
        st.fixed_dictionaries({"t": st.just("bitflip"), "pos": frac, "bit": st.integers(0, 7)}),
        st.fixed_dictionaries({"t": st.just("subst"), "pos": frac, "val": st.integers(0, 255)}),
        st.fixed_dictionaries({"t": st.just("trunc"), "pos": frac}),
        st.fixed_dictionaries({"t": st.just("extend"), "extra": st.binary(min_size=1, max_size=8).map(H)}),
        st.fixed_dictionaries({"t": st.just("field"), "f": st.sampled_from(FIELD_MUTS), "x": st.integers(0, 255)}),
    )


FIELD_MUTS = ["payload", "psid36", "psid37", "psid999", "gentime+1", "gentime-1", "add-location", "drop-location", "signer-digest-flip", "signer-digest-other-genuine",
              "signer-digest-evil", "signer-cert-other-genuine", "signer-cert-evil", "signer-cert-key-swap", "signer-cert-perms", "signer-cert-validity",
              "sig-r", "sig-s", "hashid", "protover", "inner-protover", "signer-to-digest", "signer-to-cert"]
FORGE = ["forged-at-under-genuine-aa", "evil-cert", "evil-digest", "evil-chain2", "evil-chain3", "genuine-digest-evil-sig", "genuine-cert-evil-sig", "empty-list", "genuine-chain2", "expired-at", "at36-psid37"]


def case_s():
    step = st.one_of(
        st.fixed_dictionaries({"op": st.just("genuine"), "sender": st.integers(0, 1), "shape": st.sampled_from(SHAPES), "plen": st.sampled_from([0, 3, 40, 300]), "adv_ms": st.sampled_from([0, 300, 1100])}),
        st.fixed_dictionaries({"op": st.just("mutate"), "of": st.integers(0, 50), "mut": mutation_s()}),
        st.fixed_dictionaries({"op": st.just("mutate"), "of": st.integers(0, 50), "mut": mutation_s()}),
        st.fixed_dictionaries({"op": st.just("forge"), "kind": st.sampled_from(FORGE), "inner": st.sampled_from(["shb", "gbc"]), "psid": st.sampled_from([36, 37, 638, 999])}),
        st.fixed_dictionaries({"op": st.just("unsecured"), "inner": st.sampled_from(["shb", "gbc", "beacon", "tsb", "guc"]), "bnh": st.sampled_from([1, 1, 0, 0, 3, 9, 15])}),
        st.fixed_dictionaries({"op": st.just("replay"), "of": st.integers(0, 50)}),
    )
    return st.fixed_dictionaries({"preload": st.booleans(), "steps": st.lists(step, min_size=1, max_size=30)})


_FORGED_AT = None


class World:
    """Receiver + two genuine senders (fresh per case; keys come from the per-process zoo)."""

    def __init__(self, preload):
        from flexstack.geonet import router as gr, location_table as ltm
        from flexstack.security import sign_service as ss
        from ..stack import Ether, secured_station
        from ..vclock import VClock
        self.clock = VClock(pki.T0)
        self.clock.install([gr, ltm, ss])
        z = self.z = pki.Zoo.get()
        self.eth = Ether()       # senders only: frames are captured from eth.log and fed to the receiver by hand
        self.snd = [secured_station(self.eth, SENDERS[i], z.ats[i]) for i in range(2)]
        for i, s in enumerate(self.snd):
            s.set_position(self.clock.now, 413000000 + i * 900, 21000000 + i * 700)
        self.rx = secured_station(None, RX, z.ats[2], known_ats=[z.ats[0]] if preload else [])
        self.rx.set_position(self.clock.now, 413000500, 21000500)
        self.genuine_ats = {pki.hashedid8(a.certificate): a.certificate for a in z.ats + [z.at36]}
        self.captured = []

    def close(self):
        self.clock.uninstall()

    def genuine(self, sender, shape, plen):
        from ..stack import secured_request
        s = self.snd[sender]
        n = len(self.eth.log)
        payload = bytes((7 * i + plen + sender) % 256 for i in range(plen))
        s.call(s.gn.gn_data_request, secured_request(shape, payload))
        frames = [p for (x, p) in self.eth.log[n:] if x == s.index]
        if frames:
            self.captured.append(frames[0])
            return frames[0]
        return None


def independent_verdict(world, frame):
    """(deliverable, inner bytes or None): does the frame carry a signature verifying under a genuine ticket?"""
    try:
        if len(frame) < 4:
            return False, None
        b = rc.parse_basic(frame[:4])
        if b["nh"] != rc.NH_SECURED:
            return False, None
        d = pki.coder().decode_etsi_ts_103097_data_signed(frame[4:])
        if d["content"][0] != "signedData":
            return False, None
        sd = d["content"][1]
        signer = sd["signer"]
        if signer[0] == "digest":
            cert = world.genuine_ats.get(signer[1])
        elif signer[0] == "certificate" and len(signer[1]) >= 1:
            c0 = signer[1][0]
            cert = world.genuine_ats.get(pki.hashedid8(c0))
            if cert is not None and pki.enc_cert(cert) != pki.enc_cert(c0):
                cert = None
        else:
            cert = None
        if cert is None:
            return False, None
        vki = cert["toBeSigned"]["verifyKeyIndicator"]
        data = pki.coder().encode_to_be_signed_data(sd["tbsData"])
        if vki[0] != "verificationKey" or not pki.raw_verify(vki[1], data, sd["signature"]):
            return False, None
        return True, sd["tbsData"]["payload"]["data"]["content"][1]
    except Exception:
        return False, None


def apply_mutation(world, frame, mut):
    """Returns (mutated frame or None, decodes: bool or None)."""
    t = mut["t"]
    n = len(frame)
    if t == "bitflip":
        i = min(n - 1, int(mut["pos"] * n))
        return frame[:i] + bytes([frame[i] ^ (1 << mut["bit"])]) + frame[i + 1:], None
    if t == "subst":
        i = min(n - 1, int(mut["pos"] * n))
        if frame[i] == mut["val"]:
            return None, None
        return frame[:i] + bytes([mut["val"]]) + frame[i + 1:], None
    if t == "trunc":
        return frame[:int(mut["pos"] * n)], None
    if t == "extend":
        return frame + B(mut["extra"]), None
    # field-level
    z = world.z
    try:
        d = pki.coder().decode_etsi_ts_103097_data_signed(frame[4:])
    except Exception:
        return None, None
    d = copy.deepcopy(d)
    sd = d["content"][1]
    hi = sd["tbsData"]["headerInfo"]
    f = mut["f"]
    x = mut["x"]
    other = z.ats[3].certificate
    if f == "payload":
        pl = bytearray(sd["tbsData"]["payload"]["data"]["content"][1])
        if not pl:
            return None, None
        pl[x % len(pl)] ^= 0x01
        sd["tbsData"]["payload"]["data"]["content"] = ("unsecuredData", bytes(pl))
    elif f.startswith("psid"):
        v = int(f[4:])
        if hi["psid"] == v:
            return None, None
        hi["psid"] = v
    elif f == "gentime+1":
        hi["generationTime"] += 1
    elif f == "gentime-1":
        hi["generationTime"] -= 1
    elif f == "add-location":
        if "generationLocation" in hi:
            hi["generationLocation"] = dict(hi["generationLocation"], latitude=hi["generationLocation"]["latitude"] + 1)
        else:
            hi["generationLocation"] = {"latitude": 1, "longitude": 2, "elevation": 0xF000}
    elif f == "drop-location":
        if "generationLocation" not in hi:
            return None, None
        del hi["generationLocation"]
    elif f == "signer-digest-flip":
        if sd["signer"][0] != "digest":
            return None, None
        dg = bytearray(sd["signer"][1])
        dg[x % 8] ^= 1 << (x % 8)
        sd["signer"] = ("digest", bytes(dg))
    elif f == "signer-digest-other-genuine":
        if sd["signer"][0] != "digest":
            return None, None
        sd["signer"] = ("digest", pki.hashedid8(other))
    elif f == "signer-digest-evil":
        sd["signer"] = ("digest", pki.hashedid8(z.evil_at.certificate))
    elif f == "signer-cert-other-genuine":
        sd["signer"] = ("certificate", [copy.deepcopy(other)])
    elif f == "signer-cert-evil":
        sd["signer"] = ("certificate", [copy.deepcopy(z.evil_at.certificate)])
    elif f in ("signer-cert-key-swap", "signer-cert-perms", "signer-cert-validity"):
        if sd["signer"][0] != "certificate":
            return None, None
        c = sd["signer"][1][0]
        if f == "signer-cert-key-swap":
            c["toBeSigned"]["verifyKeyIndicator"] = ("verificationKey", pki.pk_tuple(z.evil_sk))
        elif f == "signer-cert-perms":
            c["toBeSigned"]["appPermissions"] = c["toBeSigned"]["appPermissions"] + [{"psid": 1234}]
        else:
            c["toBeSigned"]["validityPeriod"] = dict(c["toBeSigned"]["validityPeriod"], start=c["toBeSigned"]["validityPeriod"]["start"] + 1)
    elif f == "sig-r":
        r = bytearray(sd["signature"][1]["rSig"][1])
        r[x % 32] ^= 1 << (x % 8)
        sd["signature"] = (sd["signature"][0], dict(sd["signature"][1], rSig=("x-only", bytes(r))))
    elif f == "sig-s":
        s_ = bytearray(sd["signature"][1]["sSig"])
        s_[x % 32] ^= 1 << (x % 8)
        sd["signature"] = (sd["signature"][0], dict(sd["signature"][1], sSig=bytes(s_)))
    elif f == "hashid":
        sd["hashId"] = "sha384"
    elif f == "protover":
        d["protocolVersion"] = 2
    elif f == "inner-protover":
        sd["tbsData"]["payload"]["data"]["protocolVersion"] = 2
    elif f == "signer-to-digest":
        if sd["signer"][0] != "certificate":
            return None, None
        sd["signer"] = ("digest", pki.hashedid8(sd["signer"][1][0]))
    elif f == "signer-to-cert":
        if sd["signer"][0] != "digest":
            return None, None
        c = world.genuine_ats.get(sd["signer"][1])
        if c is None:
            return None, None
        sd["signer"] = ("certificate", [copy.deepcopy(c)])
    try:
        return frame[:4] + pki.coder().encode_etsi_ts_103097_data_signed(d), True
    except Exception:
        return None, False


def forge(world, kind, inner_kind, psid):
    """Attacker-built secured frame around a fresh inner GN packet."""
    from ..stack import addr_bytes
    from ..vclock import tst32
    z = world.z
    so = {"addr": addr_bytes(b"\x02\x00\x00\x00\x6e\x6e"), "tst": tst32(world.clock.now), "lat": 413000300, "lon": 21000300, "pai": 1}
    port = {36: 2001, 37: 2002, 638: 2018}.get(psid, 3000)
    payload = rc.build_btp(port, 0) + b"forged-by-attacker"
    if inner_kind == "gbc":
        pkt = rc.build_packet("gbc", so=so, sn=4242, rhl=3, mhl=3, payload=payload, area={"lat": 413000500, "lon": 21000500, "a": 800, "b": 800, "angle": 0, "shape": 0})
    else:
        pkt = rc.build_packet("shb", so=so, payload=payload)
    inner = pkt[4:]
    gen = int((world.clock.now - pki.ITS_EPOCH + pki.LEAP) * 1_000_000)
    hi = {"psid": psid, "generationTime": gen}
    if psid == 37:
        hi["generationLocation"] = {"latitude": 413000300, "longitude": 21000300, "elevation": 0xF000}
    tbs = {"payload": {"data": {"protocolVersion": 3, "content": ("unsecuredData", inner)}}, "headerInfo": hi}
    data = pki.coder().encode_to_be_signed_data(tbs)
    g0 = z.ats[0].certificate
    sk = z.sk(z.evil_at)
    if kind == "forged-at-under-genuine-aa":
        # ticket naming the genuine AA as issuer but signed with the attacker's key; the message is signed with the ticket's own key
        global _FORGED_AT
        if _FORGED_AT is None:
            import ecdsa
            k = ecdsa.SigningKey.generate(curve=ecdsa.NIST256p)
            _FORGED_AT = (pki.forge_cert(pki.tbs_at([36, 37, 638, 999]), k, z.aa.certificate, z.evil_sk), k)
        signer = ("certificate", [_FORGED_AT[0]])
        sk = _FORGED_AT[1]
    elif kind == "evil-cert":
        signer = ("certificate", [z.evil_at.certificate])
    elif kind == "evil-digest":
        signer = ("digest", pki.hashedid8(z.evil_at.certificate))
    elif kind == "evil-chain2":
        signer = ("certificate", [z.evil_at.certificate, z.evil_aa.certificate])
    elif kind == "evil-chain3":
        signer = ("certificate", [z.evil_at.certificate, z.evil_aa.certificate, z.evil_root.certificate])
    elif kind == "genuine-digest-evil-sig":
        signer = ("digest", pki.hashedid8(g0))
    elif kind == "genuine-cert-evil-sig":
        signer = ("certificate", [g0])
    elif kind == "empty-list":
        signer = ("certificate", [])
    elif kind == "genuine-chain2":
        signer = ("certificate", [g0, z.aa.certificate])
        sk = z.sk(z.ats[0])           # genuinely signed, but a 2-certificate list is not the profile: may be refused, must not be mis-delivered
    elif kind == "expired-at":
        signer = ("certificate", [z.at_expired.certificate])
        sk = z.sk(z.at_expired)
    else:  # at36-psid37: genuine ticket without DENM permission signs psid 37
        signer = ("certificate", [z.at36.certificate])
        sk = z.sk(z.at36)
        hi["psid"] = 37
        hi["generationLocation"] = {"latitude": 413000300, "longitude": 21000300, "elevation": 0xF000}
        data = pki.coder().encode_to_be_signed_data(tbs)
    sd = {"protocolVersion": 3, "content": ("signedData", {"hashId": "sha256", "tbsData": tbs, "signer": signer, "signature": pki.raw_sign(sk, data)})}
    try:
        sec = pki.coder().encode_etsi_ts_103097_data_signed(sd)
    except Exception:
        return None
    return rc.build_basic(1, rc.NH_SECURED, 0, 0x1A, pkt[3]) + sec


def feed(world, frame, what, vs, state):
    """Feed one frame to the receiver and judge the outcome."""
    rx = world.rx
    n_gn = len(rx.gn_indications)
    rx.receive(frame)
    rx.errors.clear()          # exceptions are C04's subject; here they count as 'not delivered'
    new = rx.gn_indications[n_gn:]
    ok, inner = independent_verdict(world, frame)
    if new:
        state["delivered"] += 1
        if not ok:
            vs.append(violation(ID, "C03/delivered-without-valid-signature:%s" % what, "%s frame (%d bytes) was delivered to upper layers but carries no signature verifying under a genuine ticket: %s" % (
                what, len(frame), frame[:48].hex())))
        else:
            if len(new) > 1:
                vs.append(violation(ID, "C03/delivered-more-than-once", "%s frame produced %d indications" % (what, len(new))))
            p = rc.parse_inner(inner)
            if bytes(new[0].data) != p["payload"]:
                vs.append(violation(ID, "C03/delivered-bytes-differ-from-signed-payload", "%s: delivered %s..., signed payload %s..." % (what, bytes(new[0].data)[:24].hex(), p["payload"][:24].hex())))
            so = p["ext"]["so"]
            pv = new[0].source_position_vector
            if (pv.latitude, pv.longitude, pv.tst.msec) != (so["lat"], so["lon"], so["tst"]):
                vs.append(violation(ID, "C03/delivered-header-info-differs-from-signed", "%s: indication PV differs from the signed header" % what))
            if what == "genuine":
                state["genuine_accepted"] += 1
    return bool(new), ok


def run_case(case):
    world = World(case["preload"])
    vs = []
    labels = set()
    state = {"delivered": 0, "genuine_accepted": 0}
    nontrivial = False
    try:
        for i, stp in enumerate(case["steps"]):
            op = stp["op"]
            if op == "genuine":
                world.clock.advance(stp["adv_ms"] / 1000.0)
                fr = world.genuine(stp["sender"], stp["shape"], stp["plen"])
                if fr is None:
                    continue
                dl, ok = feed(world, fr, "genuine", vs, state)
                labels.add("genuine:%s:%s" % (stp["shape"], "delivered" if dl else "refused"))
            elif op in ("mutate", "replay"):
                if not world.captured:
                    continue
                src = world.captured[stp["of"] % len(world.captured)]
                if op == "replay":
                    dl, ok = feed(world, src, "replay", vs, state)
                    labels.add("replay:%s" % ("delivered" if dl else "refused"))
                    continue
                fr, decodes = apply_mutation(world, src, stp["mut"])
                if fr is None or fr == src:
                    continue
                what = "mutated:%s" % (stp["mut"]["t"] if stp["mut"]["t"] != "field" else "field:" + stp["mut"]["f"])
                dl, ok = feed(world, fr, what, vs, state)
                labels.add("%s:%s" % (stp["mut"]["t"], "delivered" if dl else "refused"))
                if state["genuine_accepted"] or decodes:
                    nontrivial = True
            elif op == "forge":
                fr = forge(world, stp["kind"], stp["inner"], stp["psid"])
                if fr is None:
                    continue
                dl, ok = feed(world, fr, "forged:%s" % stp["kind"], vs, state)
                labels.add("forge:%s" % ("delivered" if dl else "refused"))
                if dl and stp["kind"] not in ("genuine-chain2",):
                    vs.append(violation(ID, "C03/forged-packet-delivered:%s" % stp["kind"], "attacker packet of kind %s (psid %d) was delivered" % (stp["kind"], stp["psid"])))
                if state["genuine_accepted"]:
                    nontrivial = True
            else:
                from ..stack import addr_bytes
                from ..vclock import tst32
                so = {"addr": addr_bytes(b"\x02\x00\x00\x00\x6e\x6f"), "tst": tst32(world.clock.now), "lat": 413000300, "lon": 21000300, "pai": 1}
                k = stp["inner"]
                kw = dict(so=so, payload=b"" if k == "beacon" else rc.build_btp(2001, 0) + b"unsecured")
                if k == "gbc":
                    kw.update(sn=9, rhl=2, mhl=2, area={"lat": 413000500, "lon": 21000500, "a": 800, "b": 800, "angle": 0, "shape": 0})
                elif k == "tsb":
                    kw.update(sn=10, rhl=2, mhl=2)
                elif k == "guc":
                    kw.update(sn=11, rhl=2, mhl=2, de={"addr": addr_bytes(RX), "tst": 0, "lat": 413000000, "lon": 21000000})
                # the basic-header next-header field names no security envelope: COMMON (1), ANY (0) or a reserved value
                kw["bnh"] = stp.get("bnh", 1)
                dl, ok = feed(world, rc.build_packet(k, **kw), "unsecured", vs, state)
                labels.add("unsecured-nh:%d" % kw["bnh"])
                labels.add("unsecured:%s" % ("delivered" if dl else "refused"))
            if vs:
                break
        return Outcome(vs, labels=sorted(labels), nontrivial=nontrivial)
    finally:
        world.close()


def job_histories(n, seed):
    return core.hyp_run(case_s(), run_case, n=n, seed=seed, kind="history")


# ---- enumerated single-bit flips ----------------------------------------------------------------
def job_bitflips(shape_i, stride, offset):
    part = Partial()
    world = World(preload=False)
    try:
        shapes = [("cam", 0), ("cam", 1), ("vam", 0), ("denm", 0), ("other", 0)]
        shape, second = shapes[shape_i]
        # first genuine CAM carries the certificate (so the receiver learns the ticket); the second one is digest-signed
        first = world.genuine(0, "cam", 20)
        state = {"delivered": 0, "genuine_accepted": 0}
        vs = []
        feed(world, first, "genuine", vs, state)
        if shape == "cam" and second == 0:
            base = first
        else:
            world.clock.advance(0.2)
            base = world.genuine(0, shape, 20)
        n = still = 0
        total_bits = len(base) * 8
        for bit in range(offset, total_bits, stride):
            i, b = divmod(bit, 8)
            fr = base[:i] + bytes([base[i] ^ (1 << (7 - b))]) + base[i + 1:]
            vs = []
            dl, ok = feed(world, fr, "bitflip", vs, state)
            n += 1
            still += dl
            for v in vs:
                v["case"] = {"shape_i": shape_i, "bit": bit}
                v["kind"] = "bitflip"
                part.add_violation(v)
        part.evaluations += n
        part.nontrivial_extra += n
        part.subcount("single-bit-flips:%s%s" % (shape, "-digest" if second else ""), evaluations=n, delivered_anyway=still, frame_bits=total_bits, stride=stride)
        part.samples.append({"kind": "bitflip", "nontrivial": True, "case": {"shape_i": shape_i, "bit": offset, "frame": base[:60].hex() + "..."}})
    finally:
        world.close()
    return part


def run_bitflip(case):
    world = World(preload=False)
    try:
        shapes = [("cam", 0), ("cam", 1), ("vam", 0), ("denm", 0), ("other", 0)]
        shape, second = shapes[case["shape_i"]]
        first = world.genuine(0, "cam", 20)
        state = {"delivered": 0, "genuine_accepted": 0}
        vs = []
        feed(world, first, "genuine", vs, state)
        if shape == "cam" and second == 0:
            base = first
        else:
            world.clock.advance(0.2)
            base = world.genuine(0, shape, 20)
        i, b = divmod(case["bit"], 8)
        fr = base[:i] + bytes([base[i] ^ (1 << (7 - b))]) + base[i + 1:]
        vs = []
        feed(world, fr, "bitflip", vs, state)
        return Outcome(vs, nontrivial=True)
    finally:
        world.close()


def jobs(tier, seed):
    k = 1 if tier == "quick" else 30
    js = []
    for s in range(11):
        js.append({"fn": "vf.props.c03:job_histories", "args": {"n": 60 * k, "seed": seed * 1000 + s}})
    for shape_i in range(5):
        for off in range(2):
            js.append({"fn": "vf.props.c03:job_bitflips", "args": {"shape_i": shape_i, "stride": 2, "offset": off}})
    return js


def replay(kind, case):
    if kind == "history":
        return run_case(case)
    if kind == "bitflip":
        return run_bitflip(case)
    raise ValueError(kind)

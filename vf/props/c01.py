"""C01 - End-to-end payload delivery between stations through BTP and GeoNetworking.

Request histories on 2..4 real stations (BTP router + GN router) joined by the simulated ether,
with a reference delivery model."""
from __future__ import annotations

from hypothesis import strategies as st

from .. import core, refcodec as rc, refgeo as rg
from ..core import Outcome, violation

ID = "C01"
RULE = ("A case = 2..4 stations (full radio mesh; 1 case in 4: four stations in a row with one-neighbour radio range, SHB and whole-row geo-broadcasts with hop limits 0..10) at drawn offsets around a base point anywhere on the globe (|lat| <= 84 deg, all four "
        "sign quadrants weighted), SIMPLE or CBF area forwarding, handlers on a drawn port set, and a history of 1..12 steps: BTP "
        "requests (BTP-A/B, destination port in or outside the handler set incl. 0 and 65535, 16-bit source port / port info, payload "
        "length classes 0/1/small/~1400, traffic class, hop limit 0..255, transport SHB | GBC/GAC x 3 shapes with drawn axes/azimuth "
        "around a station or off-site | GUC to another station), unrelated receptions (beacon/SHB of a phantom station), clock advances "
        "0..3 s, and mute/unmute of a station (so that unicast requests pile up behind a pending location-service lookup). Oracle: per "
        "receiver and port the recorded BTPDataIndications must equal, in request order per sender, exactly the payloads the model "
        "expects (SHB: every connected station; GBC/GAC: connected stations inside the area by vf/refgeo, band = no verdict; GUC: the "
        "addressed station, directly or after the LS reply), each with the sender's position vector, transport type and port "
        "information; nothing at other ports, outside stations or the sender. Non-trivial = >= 1 expected delivery and (negative "
        "coordinate | payload >= 1000 | port >= 32768 | GUC via LS | second GUC while pending | unrelated reception during LS | area "
        "excluding a receiver).")
ASSUMPTIONS = [
    "security off (the secured path is exercised by C03/C05); SCF bit cleared in traffic classes (store-carry-forward buffers are documented as not implemented)",
    "full-mesh radio connectivity; in/out-of-area decided by vf/refgeo with its tolerance band (no verdict inside the band)",
    "a geo-unicast issued while the destination is muted is expected only if it was buffered behind a location-service lookup that can still complete (< 9 retransmissions)",
]

PORTSETS = [[2001, 2002], [0, 65535, 2001], [2018, 40000, 65535], [1, 2001, 32768, 65534]]


def req_s(n):
    return st.fixed_dictionaries({
        "op": st.just("req"), "s": st.integers(0, n - 1),
        "t": st.sampled_from(["shb", "gbc", "gac", "guc", "guc"]),
        "btp": st.sampled_from(["A", "B"]),
        "port_i": st.integers(0, 5), "second": st.one_of(st.sampled_from([0, 65535, 32768]), st.integers(0, 65535)),
        "plen": st.sampled_from([0, 1, 5, 40, 300, 1000, 1400]), "pseed": st.integers(0, 255),
        "tc": st.integers(0, 127), "hl": st.one_of(st.sampled_from([0, 1, 2, 10, 255]), st.integers(0, 255)),
        "shape": st.integers(0, 2), "a": st.sampled_from([30, 100, 400, 1500, 2500, 5000]), "b": st.sampled_from([20, 100, 300, 1500, 0, 0]),   # b = 0: same as a
        "angle": st.sampled_from([0, 30, 45, 90, 135, 271]), "centre": st.integers(0, n), "d": st.integers(1, n - 1),
    })


def case_s():
    def build(n):
        other = st.one_of(
            st.fixed_dictionaries({"op": st.just("inject"), "s": st.integers(0, n - 1), "k": st.sampled_from(["beacon", "shb", "dest_shb", "dest_beacon"]), "d": st.integers(1, n - 1)}),
            st.fixed_dictionaries({"op": st.just("adv"), "ms": st.sampled_from([0, 100, 999, 1000, 1001, 2000, 3000])}),
            st.fixed_dictionaries({"op": st.just("mute"), "s": st.integers(0, n - 1)}),
            st.fixed_dictionaries({"op": st.just("unmute"), "s": st.integers(0, n - 1)}),
        )
        def scenario(args):
            snd, dd, reqs, inj = args
            d = (snd + dd) % n
            out = [{"op": "mute", "s": d}]
            for i, r in enumerate(reqs):
                out.append(dict(r, s=snd, t="guc", d=dd))
                if inj and i == 0:
                    out.append({"op": "inject", "s": snd, "k": inj, "d": dd})
            out += [{"op": "unmute", "s": d}, {"op": "adv", "ms": 1000}]
            return out
        def scenario_abandoned(args):
            # a lookup is abandoned (destination off the air for all retransmissions); nothing is received meanwhile; later the
            # destination is looked up again and several requests queue behind the second lookup
            snd, dd, reqs, hear = args
            d = (snd + dd) % n
            out = [{"op": "mute", "s": d}, dict(reqs[0], s=snd, t="guc", d=dd), {"op": "adv", "ms": 12000}]
            if hear:
                out.append({"op": "inject", "s": snd, "k": hear, "d": dd})
            out += [dict(r, s=snd, t="guc", d=dd) for r in reqs[1:]]
            out += [{"op": "unmute", "s": d}, {"op": "adv", "ms": 1000}, {"op": "adv", "ms": 1000}]
            return out
        scen_ab = st.tuples(st.integers(0, n - 1), st.integers(1, n - 1), st.lists(req_s(n), min_size=3, max_size=4),
                            st.sampled_from([None, None, "beacon", "dest_beacon"])).map(scenario_abandoned)
        scen = st.tuples(st.integers(0, n - 1), st.integers(1, n - 1), st.lists(req_s(n), min_size=1, max_size=3),
                         st.sampled_from([None, "beacon", "shb", "dest_shb", "dest_beacon"])).map(scenario)
        single = st.one_of(req_s(n), req_s(n), other).map(lambda x: [x])
        steps = st.lists(st.one_of(single, single, single, single, scen, scen, scen_ab), min_size=1, max_size=10).map(lambda ll: [x for l in ll for x in l][:20])
        return st.fixed_dictionaries({
            "n": st.just(n), "cbf": st.booleans(),
            "blat": st.one_of(st.sampled_from([413000000, -337000000, 0, 600000000, -840000000, 1000]), st.integers(-840000000, 840000000)),
            "blon": st.one_of(st.sampled_from([21000000, -707000000, 0, 1790000000, -1790000000, -1000]), st.integers(-1790000000, 1790000000)),
            "off": st.lists(st.tuples(st.integers(-3000, 3000), st.integers(-3000, 3000)), min_size=n, max_size=n),
            "ports": st.integers(0, len(PORTSETS) - 1),
            "steps": steps,
        })
    def line_case(args):
        # 4 stations in a row, radio range one neighbour: geo-broadcasts to an area containing everybody travel hop by hop, so that the
        # hop limit decides how far they get
        cbf, blat, blon, reqs = args
        steps = []
        for r in reqs:
            steps.append(dict(r, t="gbc" if r["t"] != "shb" else "shb", shape=0, a=5000, b=0, angle=0, centre=r["s"] % 4))
            steps.append({"op": "adv", "ms": 1000})
        return {"n": 4, "topo": "line", "cbf": cbf, "blat": blat, "blon": blon, "off": [[0, 0], [0, 300], [0, 600], [0, 900]], "ports": 0, "steps": steps[:16]}
    hl_line = st.sampled_from([0, 1, 2, 2, 3, 3, 4, 10])
    line = st.tuples(st.booleans(), st.sampled_from([413000000, -337000000, 100000]), st.sampled_from([21000000, -707000000, 1790000000]),
                     st.lists(st.tuples(req_s(4), hl_line).map(lambda t: dict(t[0], hl=t[1])), min_size=1, max_size=6)).map(line_case)
    return st.one_of(st.integers(2, 4).flatmap(build), st.integers(2, 4).flatmap(build), st.integers(2, 4).flatmap(build), line)


def _payload(step_i, plen, pseed):
    return bytes((pseed + step_i * 17 + i * 3) % 256 for i in range(plen))


def run_case(case):
    from flexstack.geonet import router as gr, location_table as ltm
    from flexstack.geonet.mib import AreaForwardingAlgorithm
    from flexstack.geonet.service_access_point import (Area, CommonNH, GeoAnycastHST, GeoBroadcastHST, HeaderSubType, HeaderType,
                                                       PacketTransportType, TopoBroadcastHST, TrafficClass)
    from flexstack.btp.service_access_point import BTPDataRequest
    from ..stack import Ether, Station, addr_bytes, make_addr
    from ..vclock import VClock, tst32

    n = case["n"]
    labels = set()
    vs = []
    clock = VClock(1_700_000_000.0)
    clock.install([gr, ltm])
    try:
        eth = MuteEther()
        ports = PORTSETS[case["ports"]]
        port_pool = ports + [4242, 7]          # two ports without handler
        mids = [bytes([2, 0, 0, 0, 0x50, i + 1]) for i in range(n)]
        sts, pos = [], []
        for i in range(n):
            s = Station(eth, mids[i], mib_kwargs=dict(
                itsGnMaxPacketDataRate=10**9, itsGnMaxGeoAreaSize=10**6,
                itsGnAreaForwardingAlgorithm=AreaForwardingAlgorithm.CBF if case["cbf"] else AreaForwardingAlgorithm.SIMPLE), ports=ports)
            p = rg.destination(case["blat"], case["blon"], case["off"][i][0], case["off"][i][1])
            s.set_position(clock.now, p[0], p[1], speed=(i * 700) - 900, heading=i * 900)
            sts.append(s)
            pos.append(p)
        line = case.get("topo") == "line"
        if line:
            for i in range(n - 1):
                eth.connect(i, i + 1)
            labels.add("line-topology")
        else:
            eth.connect_all()
        if any(p[0] < 0 or p[1] < 0 for p in pos):
            labels.add("negative-coordinate")
        expected = {(r, p): [] for r in range(n) for p in ports}     # (receiver, port) -> list of expectation dicts (in order)
        optional = []          # expectation dicts that may or may not arrive (band / unknown LS outcome)
        pending_ls = {}        # (sender, dest) -> list of expectation dicts buffered behind LS
        ls_retries = {}        # (sender,dest) -> retransmissions that happened while dest muted
        eth.mids = mids

        pv_hist = [[] for _ in range(n)]

        def refresh_positions():
            # stations keep receiving position fixes: the ego position vector (and so the SO PV of what they send) carries the current time
            for i_, s_ in enumerate(sts):
                s_.set_position(clock.now, pos[i_][0], pos[i_][1], speed=(i_ * 700) - 900, heading=i_ * 900)
                e_ = s_.gn.ego_position_vector
                pv_hist[i_].append((e_.tst.msec, e_.latitude, e_.longitude, e_.s, e_.h, bool(e_.pai)))

        def pump():
            guard = 0
            while True:
                ok = eth.pump(max_steps=20000)
                if not ok:
                    vs.append(violation(ID, "C01/ether-does-not-quiesce", "frame exchange did not terminate"))
                    return
                break
            _settle_ls(pending_ls, ls_retries, expected, optional, eth, ports, sts, mids)

        for step_i, stp in enumerate(case["steps"]):
            op = stp["op"]
            if op == "adv":
                # advance in slices so that frames emitted by timers are delivered at their time
                remaining = stp["ms"] / 1000.0
                target = clock.now + remaining
                while True:
                    nd = clock.next_due()
                    if nd is None or nd > target:
                        break
                    before = len(eth.log)
                    clock.advance_to(nd)
                    for (snd, pkt) in eth.log[before:]:
                        _count_ls_retry(pkt, snd, eth, ls_retries, mids)
                    pump()
                    refresh_positions()
                clock.advance_to(target)
                refresh_positions()
                continue
            if op == "mute":
                eth.muted.add(stp["s"])
                continue
            if op == "unmute":
                eth.muted.discard(stp["s"])
                continue
            if op == "inject":
                r = sts[stp["s"]]
                if stp["s"] in eth.muted:
                    continue
                so = {"addr": addr_bytes(b"\x02\x00\x00\x00\x99\x99"), "tst": tst32(clock.now), "lat": pos[stp["s"]][0] + 1000, "lon": pos[stp["s"]][1] - 1000, "pai": 1}
                if stp["k"].startswith("dest_"):
                    # a one-way radio link: a packet of station d reaches s although d (muted or not) may not hear s.  It teaches s the
                    # position of d but does not answer a pending location-service lookup
                    d_ = (stp["s"] + stp.get("d", 1)) % n
                    so = {"addr": addr_bytes(mids[d_]), "tst": tst32(clock.now), "lat": pos[d_][0], "lon": pos[d_][1], "pai": 1}
                    if (stp["s"], d_) in pending_ls:
                        labels.add("destination-heard-during-ls")
                if stp["k"] in ("beacon", "dest_beacon"):
                    r.receive(rc.build_packet("beacon", so=so))
                else:
                    r.receive(rc.build_packet("shb", so=so, payload=b"\x10\x92\x00\x00zz", nh=rc.CNH_BTPB))   # port 4242: no handler
                if any(k[0] == stp["s"] for k in pending_ls):
                    labels.add("unrelated-reception-during-ls")
                pump()
                continue
            # ---- request
            s = stp["s"]
            if s in eth.muted:
                continue          # a muted station is off the air: it issues no requests in this model
            snd = sts[s]
            t = stp["t"]
            port = port_pool[stp["port_i"] % len(port_pool)]
            payload = _payload(step_i, stp["plen"], stp["pseed"])
            d = (s + stp["d"]) % n
            if t == "shb":
                ptt = PacketTransportType(HeaderType.TSB, TopoBroadcastHST.SINGLE_HOP)
            elif t == "gbc":
                ptt = PacketTransportType(HeaderType.GEOBROADCAST, GeoBroadcastHST(stp["shape"]))
            elif t == "gac":
                ptt = PacketTransportType(HeaderType.GEOANYCAST, GeoAnycastHST(stp["shape"]))
            else:
                ptt = PacketTransportType(HeaderType.GEOUNICAST, HeaderSubType.UNSPECIFIED)
            c = stp["centre"]
            centre = pos[c] if c < n else rg.destination(case["blat"], case["blon"], 20000, -15000)
            stp = dict(stp, b=stp["b"] or stp["a"])
            area = Area(latitude=centre[0], longitude=centre[1], a=stp["a"], b=stp["b"], angle=stp["angle"])
            req = BTPDataRequest(btp_type=CommonNH.BTP_A if stp["btp"] == "A" else CommonNH.BTP_B, source_port=stp["second"], destination_port=port,
                                 destination_port_info=stp["second"], gn_packet_transport_type=ptt, gn_destination_address=make_addr(mids[d]),
                                 gn_area=area, gn_max_hop_limit=stp["hl"], traffic_class=TrafficClass.decode_from_int(stp["tc"]),
                                 data=payload, length=len(payload))
            ego = snd.gn.ego_position_vector
            exp_base = {"sender": s, "step": step_i, "payload": payload, "port": port, "btp": stp["btp"], "second": stp["second"], "t": t,
                        "shape": stp["shape"], "pv": (ego.tst.msec, ego.latitude, ego.longitude, ego.s, ego.h, bool(ego.pai)),
                        # a request queued behind a lookup is built when it is finally sent: any ego PV the sender had from the request on
                        "pv_later": pv_hist[s], "pv_from": len(pv_hist[s])}
            n_log = len(eth.log)
            try:
                snd.call(snd.btp.btp_data_request, req)
            except Exception as e:
                vs.append(violation(ID, "C01/request-raises:%s:%s" % (t, type(e).__name__), "step %d: %s request of station %d raised %r" % (step_i, t, s, e)))
                break
            has_handler = port in ports
            if line and t in ("shb", "gbc"):
                # hop distance decides: SHB reaches the direct neighbours; a geo-broadcast whose area holds every station reaches the station
                # k hops away exactly when the hop limit (the MIB default of 10 when the request gives 0 or 1) is at least k
                eff = stp["hl"] if stp["hl"] > 1 else 10
                for r in range(n):
                    if r == s or not has_handler:
                        continue
                    k_ = abs(r - s)
                    if (t == "shb" and k_ == 1) or (t == "gbc" and k_ <= eff):
                        expected[(r, port)].append(dict(exp_base))
                        if t == "gbc" and k_ >= 3 and eff < 2 * (k_ - 1):
                            labels.add("multi-hop-tight-hop-limit")
                    elif t == "gbc":
                        labels.add("area-excludes-a-receiver")      # inside the area but beyond the hop budget
            elif t == "shb":
                for r in range(n):
                    if r != s and r not in eth.muted and has_handler:
                        expected[(r, port)].append(dict(exp_base))
            elif t in ("gbc", "gac"):
                for r in range(n):
                    if r == s or not has_handler:
                        continue
                    v = rg.verdict(stp["shape"], stp["a"], stp["b"], stp["angle"], centre[0], centre[1], pos[r][0], pos[r][1])
                    if r in eth.muted:
                        # off the air now; a copy still waiting in a neighbour's contention buffer may reach it after it comes back
                        if v != "outside":
                            optional.append(dict(exp_base, receiver=r))
                        continue
                    if v == "inside":
                        expected[(r, port)].append(dict(exp_base))
                    elif v is None:
                        e_ = dict(exp_base, receiver=r)
                        optional.append(e_)
                    else:
                        labels.add("area-excludes-a-receiver")
            else:
                sent_now = [p for (x, p) in eth.log[n_log:] if x == s]
                guc_sent = any(rc.parse_packet(p)["common"]["ht"] == rc.HT_GUC for p in sent_now)
                ls_sent = any(rc.parse_packet(p)["common"]["ht"] == rc.HT_LS for p in sent_now)
                if not guc_sent:
                    labels.add("guc-via-ls")
                    if (s, d) in pending_ls:
                        labels.add("second-guc-while-ls-pending")
                if (s, d) in pending_ls:
                    # a lookup for this destination is in progress: the request must queue behind it, in order
                    pending_ls[(s, d)].append(dict(exp_base, nohandler=not has_handler))
                elif d in eth.muted:
                    if guc_sent:
                        pass                              # destination known: transmitted towards a deaf station, lost
                    else:
                        pending_ls[(s, d)] = [dict(exp_base, nohandler=not has_handler)]
                        ls_retries.setdefault((s, d), 0)
                        eth.ls_start[(s, d)] = len(eth.lsrep_delivered)
                elif has_handler:
                    expected[(d, port)].append(dict(exp_base))
            pump()
            # lookups that completed during this pump (destination reachable again and a request/retransmission went out)
            _settle_ls(pending_ls, ls_retries, expected, optional, eth, ports, sts, mids)
            if vs:
                break
        if not vs:
            # let everything still in flight finish: LS retransmissions, CBF timers
            for _ in range(12):
                before = len(eth.log)
                clock.advance(1.0)
                refresh_positions()
                for (sx, pkt) in eth.log[before:]:
                    _count_ls_retry(pkt, sx, eth, ls_retries, mids)
                pump()
                _settle_ls(pending_ls, ls_retries, expected, optional, eth, ports, sts, mids)
            # whatever is still pending can no longer be judged (destination stayed muted / retries exhausted)
            for k_, lst in pending_ls.items():
                for e_ in lst:
                    optional.append(dict(e_, receiver=k_[1]))
            vs.extend(_compare(sts, ports, expected, optional, labels))
            for s_ in sts:
                for e in s_.errors:
                    vs.append(violation(ID, "C01/reception-raises:%s" % e[0], "station %d raised %s: %s on frame %s" % (s_.index, e[0], e[1], e[2][:24].hex())))
        n_exp = sum(len(v) for v in expected.values())
        if n_exp:
            labels.add("deliveries-expected")
        big = any(len(e["payload"]) >= 1000 for v in expected.values() for e in v)
        hiport = any(e["port"] >= 32768 for v in expected.values() for e in v)
        if big:
            labels.add("payload>=1000")
        if hiport:
            labels.add("port>=32768")
        interesting = labels & {"negative-coordinate", "payload>=1000", "port>=32768", "guc-via-ls", "second-guc-while-ls-pending",
                                "unrelated-reception-during-ls", "destination-heard-during-ls", "area-excludes-a-receiver", "multi-hop-tight-hop-limit"}
        return Outcome(vs, labels=sorted(labels), nontrivial=bool(n_exp and interesting))
    finally:
        clock.uninstall()


def _count_ls_retry(pkt, sender, eth, ls_retries, mids):
    try:
        p = rc.parse_packet(pkt)
    except Exception:
        return
    if p["common"]["ht"] == rc.HT_LS and p["common"]["hst"] == 0 and p["ext"]["so"]["addr"][2:] == mids[sender]:
        for d, m in enumerate(mids):
            if p["ext"]["req"][2:] == m and (sender, d) in ls_retries:
                ls_retries[(sender, d)] += 1


def _settle_ls(pending_ls, ls_retries, expected, optional, eth, ports, sts, mids):
    """A pending lookup completes when the ether has handed the sender an LS reply of the sought station (observed on the wire,
    not read from the router: a router that forgets its pending lookup must not make the model forget the queued requests); it is
    given up - no verdict for what was queued - once the retransmissions are (nearly) used up and the router has dropped it."""
    from ..stack import make_addr
    for (s, d) in list(pending_ls):
        answered = (d, s) in eth.lsrep_delivered[eth.ls_start.get((s, d), 0):]
        retries = ls_retries.get((s, d), 0)
        if not answered:
            entry = sts[s].gn.location_table.get_entry(make_addr(mids[d]))
            if retries < 9 or (entry is not None and entry.ls_pending):
                continue
        lst = pending_ls.pop((s, d))
        ls_retries.pop((s, d), None)
        for e_ in lst:
            if e_.get("nohandler"):
                continue
            if retries >= 9 or not answered:
                optional.append(dict(e_, receiver=d))      # lookup gave up (or close to): no verdict
            elif e_["port"] in ports:
                expected[(d, e_["port"])].append(e_)


def _compare(sts, ports, expected, optional, labels):
    vs = []
    for r, st_ in enumerate(sts):
        for port in ports:
            got = list(st_.btp_indications[port])
            exp = list(expected[(r, port)])
            opt = [o for o in optional if o.get("receiver") == r and o["port"] == port]
            # match in order per sender: walk the received indications
            per_sender_idx = {}
            used_opt = set()
            exp_by_sender = {}
            for e in exp:
                exp_by_sender.setdefault(e["sender"], []).append(e)
            for ind in got:
                mid = ind.gn_source_position_vector.gn_addr.mid.mid
                s = mid[5] - 1 if mid[:5] == b"\x02\x00\x00\x00\x50" else None
                if s is None or s >= len(sts):
                    vs.append(violation(ID, "C01/indication-from-unknown-source", "station %d port %d: indication from %s" % (r, port, mid.hex())))
                    continue
                if s == r:
                    vs.append(violation(ID, "C01/delivered-to-sender-itself", "station %d port %d received its own payload" % (r, port)))
                    continue
                lst = exp_by_sender.get(s, [])
                i = per_sender_idx.get(s, 0)
                if i < len(lst) and lst[i]["payload"] == bytes(ind.data):
                    per_sender_idx[s] = i + 1
                    vs.extend(_check_ind(ind, lst[i], r, port))
                    continue
                # maybe an optional one (band / unknown LS outcome)
                k = next((j for j, o in enumerate(opt) if j not in used_opt and o["sender"] == s and o["payload"] == bytes(ind.data)), None)
                if k is not None:
                    used_opt.add(k)
                    continue
                # classify the failure
                later = [j for j in range(i + 1, len(lst)) if lst[j]["payload"] == bytes(ind.data)]
                earlier = [j for j in range(0, i) if lst[j]["payload"] == bytes(ind.data)]
                if earlier:
                    vs.append(violation(ID, "C01/delivered-twice:%s" % lst[earlier[0]]["t"], "station %d port %d: payload of step %d from station %d delivered again" % (r, port, lst[earlier[0]]["step"], s)))
                elif later:
                    vs.append(violation(ID, "C01/out-of-order-or-lost:%s" % lst[i]["t"], "station %d port %d: got payload of step %d from station %d while step %d (%s) was due first" % (
                        r, port, lst[later[0]]["step"], s, lst[i]["step"], lst[i]["t"])))
                    per_sender_idx[s] = later[0] + 1
                else:
                    vs.append(violation(ID, "C01/unexpected-delivery", "station %d port %d: unexpected payload (%d bytes) from station %d: %s" % (r, port, len(ind.data), s, bytes(ind.data)[:16].hex())))
            for s, lst in exp_by_sender.items():
                i = per_sender_idx.get(s, 0)
                for e in lst[i:]:
                    vs.append(violation(ID, "C01/not-delivered:%s" % e["t"], "station %d port %d: payload of step %d (%s, %d bytes, BTP-%s) from station %d never arrived" % (
                        r, port, e["step"], e["t"], len(e["payload"]), e["btp"], s)))
    return vs


def _check_ind(ind, e, r, port):
    from flexstack.geonet.service_access_point import HeaderType
    vs = []
    pv = ind.gn_source_position_vector
    got = (pv.tst.msec, pv.latitude, pv.longitude, pv.s, pv.h, bool(pv.pai))
    if got != e["pv"] and got not in e.get("pv_later", [])[e.get("pv_from", 0):]:
        vs.append(violation(ID, "C01/indication-source-pv-wrong", "station %d port %d step %d: source PV %r, sender's ego PV was %r" % (r, port, e["step"], got, e["pv"])))
    want_ht = {"shb": HeaderType.TSB, "gbc": HeaderType.GEOBROADCAST, "gac": HeaderType.GEOANYCAST, "guc": HeaderType.GEOUNICAST}[e["t"]]
    ptt = ind.gn_packet_transport_type
    sub = getattr(ptt.header_subtype, "value", ptt.header_subtype)
    want_sub = e["shape"] if e["t"] in ("gbc", "gac") else 0
    if ptt.header_type != want_ht or sub != want_sub:
        vs.append(violation(ID, "C01/indication-transport-type-wrong", "step %d: transport %s/%s, requested %s/%s" % (e["step"], ptt.header_type, sub, want_ht, want_sub)))
    if ind.destination_port != port:
        vs.append(violation(ID, "C01/indication-port-wrong", "step %d: destination port %d in indication delivered to handler of %d" % (e["step"], ind.destination_port, port)))
    if e["btp"] == "B" and ind.destination_port_info != e["second"]:
        vs.append(violation(ID, "C01/indication-port-info-wrong", "step %d: BTP-B port info %d, requested %d" % (e["step"], ind.destination_port_info, e["second"])))
    if e["btp"] == "A" and ind.source_port != e["second"]:
        vs.append(violation(ID, "C01/indication-source-port-wrong", "step %d: BTP-A source port %d, requested %d" % (e["step"], ind.source_port, e["second"])))
    return vs


class MuteEther:
    """Ether with mutable deafness: a muted station neither sends nor receives."""

    def __new__(cls):
        from ..stack import Ether

        class _E(Ether):
            def __init__(self):
                super().__init__()
                self.muted = set()
                self.mids = []
                self.lsrep_delivered = []      # (replying station, addressed station) of every LS reply put on the air towards its addressee
                self.ls_start = {}

            def on_send(self, station, packet):
                self.log.append((station.index, packet))
                if station.index in self.muted:
                    return
                try:
                    p = rc.parse_packet(packet)
                    if p["common"]["ht"] == rc.HT_LS and p["common"]["hst"] == 1:
                        so, de = p["ext"]["so"]["addr"][2:], p["ext"]["de"]["addr"][2:]
                        if so == self.mids[station.index] and de in self.mids and self.mids.index(de) not in self.muted:
                            self.lsrep_delivered.append((station.index, self.mids.index(de)))
                except Exception:
                    pass
                for r in sorted(self.adj[station.index]):
                    if r not in self.muted:
                        self.queue.append((station.index, r, packet))
        return _E()


def job(n, seed):
    return core.hyp_run(case_s(), run_case, n=n, seed=seed, kind="history")


def jobs(tier, seed):
    k = 1 if tier == "quick" else 20
    return [{"fn": "vf.props.c01:job", "args": {"n": 500 * k, "seed": seed * 1000 + s}} for s in range(16)]


def replay(kind, case):
    return run_case(case)

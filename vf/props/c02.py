"""C02 - Emitted packets and header codecs conform to the wire formats.

Oracle: vf/refcodec.py (independent).  Three sub-checks: decoders on reference-built bytes,
encoders/emission of the real router against reference-built bytes, per-field exhaustive sweeps."""
from __future__ import annotations

from hypothesis import strategies as st

from .. import core, refcodec as rc
from ..core import Outcome, Partial, violation, H, B

ID = "C02"
RULE = ("(1) emission: drawn MIB (mobile/stationary, default hop limit/lifetime), ego position vector (all address types, station "
        "types 0..12, signed lat/lon over the 32-bit range with boundary bias, 15-bit signed speed, 16-bit heading), request (SHB, "
        "GBC/GAC x 3 shapes, GUC, LS request, LS reply (requester unknown | already known through a beacon with the request's SO PV older / newer than the location-table PV: the DE PV must be the table's, EN 302 636-4-1 10.3.7.3), beacon, forwarded TSB/GBC/GAC/GUC/LS; BTP-A/B with all 16-bit ports; traffic "
        "class 0..255; payload 0..1400) -> bytes captured at LinkLayer.send() must equal refcodec.build(expected fields); "
        "(2) decoders: drawn field vectors -> refcodec bytes -> repository decode -> attribute values must equal the fields; "
        "(3) per-field exhaustive: every value of every header field <= 16 bits at 8 base vectors, encode and decode direction. "
        "Non-trivial = negative coordinate, negative speed, flag/TC byte != 0, PL >= 256, SN >= 32768, port >= 32768.")
ASSUMPTIONS = [
    "refcodec transcribes EN 302 636-4-1 V1.4.1 clause 9 (GN_ADDR without country code: 10 reserved bits) and EN 302 636-5-1 clause 7",
    "encoder direction draws enum-typed fields (NH, HT, HST, ST, LT base) inside their enumerations; out-of-enum codes belong to C04",
    "sequence numbers follow clause 8.3 literally: SN = (SN + 1) mod (2^16 - 1)",
    "the beacon mobility-flag position is pinned by tests/flexstack/geonet/test_router.py::test_GNDataRequestBeacon (recorded known finding)",
]

S32 = st.one_of(st.sampled_from([0, 1, -1, 2**31 - 1, -2**31, 900000000, -900000000, 1800000000, -1800000000, 413000000, -337000000]),
                st.integers(-2**31, 2**31 - 1))
U32 = st.one_of(st.sampled_from([0, 1, 2**31 - 1, 2**31, 2**31 + 1, 2**32 - 1]), st.integers(0, 2**32 - 1))
U16 = st.one_of(st.sampled_from([0, 1, 255, 256, 32767, 32768, 65534, 65535]), st.integers(0, 65535))
U8 = st.integers(0, 255)
S15 = st.one_of(st.sampled_from([0, 1, -1, 16383, -16384, 100, -100]), st.integers(-16384, 16383))
MIDS = st.one_of(st.sampled_from(["000000000000", "ffffffffffff", "020000000001", "800000000000"]), st.binary(min_size=6, max_size=6).map(H))


def addr_s():
    return st.fixed_dictionaries({"m": st.integers(0, 1), "st": st.integers(0, 12), "mid": MIDS})


def lpv_s():
    return st.fixed_dictionaries({"addr": addr_s(), "tst": U32, "lat": S32, "lon": S32, "pai": st.integers(0, 1), "speed": S15, "heading": U16})


def spv_s():
    return st.fixed_dictionaries({"addr": addr_s(), "tst": U32, "lat": S32, "lon": S32})


# ------------------------------------------------------------------------------------------------
# reference builders from field dicts
# ------------------------------------------------------------------------------------------------
def r_addr(a):
    return rc.build_addr(a["m"], a["st"], B(a["mid"]))


def r_lpv(p):
    return rc.build_lpv(r_addr(p["addr"]), p["tst"], p["lat"], p["lon"], p["pai"], p["speed"], p["heading"])


def r_spv(p):
    return rc.build_spv(r_addr(p["addr"]), p["tst"], p["lat"], p["lon"])


# repository object builders
def o_addr(a):
    from flexstack.geonet.gn_address import GNAddress, M, MID, ST
    return GNAddress(m=M(a["m"]), st=ST(a["st"]), mid=MID(B(a["mid"])))


def o_lpv(p):
    from flexstack.geonet.position_vector import LongPositionVector, TST
    return LongPositionVector(gn_addr=o_addr(p["addr"]), tst=TST(msec=p["tst"]), latitude=p["lat"], longitude=p["lon"],
                              pai=bool(p["pai"]), s=p["speed"], h=p["heading"])


def o_spv(p):
    from flexstack.geonet.position_vector import ShortPositionVector, TST
    return ShortPositionVector(gn_addr=o_addr(p["addr"]), tst=TST(msec=p["tst"]), latitude=p["lat"], longitude=p["lon"])


def x_addr(o):
    return {"m": o.m.value, "st": o.st.value, "mid": H(o.mid.mid)}


def x_lpv(o):
    return {"addr": x_addr(o.gn_addr), "tst": o.tst.msec, "lat": o.latitude, "lon": o.longitude, "pai": int(o.pai), "speed": o.s, "heading": o.h}


def x_spv(o):
    return {"addr": x_addr(o.gn_addr), "tst": o.tst.msec, "lat": o.latitude, "lon": o.longitude}


def _hst_enum(ht, hst):
    from flexstack.geonet.service_access_point import (GeoAnycastHST, GeoBroadcastHST, HeaderSubType, HeaderType,
                                                       LocationServiceHST, TopoBroadcastHST)
    t = HeaderType(ht)
    if t == HeaderType.GEOBROADCAST:
        return GeoBroadcastHST(hst)
    if t == HeaderType.GEOANYCAST:
        return GeoAnycastHST(hst)
    if t == HeaderType.TSB:
        return TopoBroadcastHST(hst)
    if t == HeaderType.LS:
        return LocationServiceHST(hst)
    return HeaderSubType(hst)


HST_RANGE = {0: [0], 1: [0], 2: [0], 3: [0, 1, 2], 4: [0, 1, 2], 5: [0, 1], 6: [0, 1]}


def _diff(want, got, path=""):
    """First differing leaf between two nested dict/values, as text."""
    if isinstance(want, dict) and isinstance(got, dict):
        for k in want:
            d = _diff(want[k], got.get(k), path + "." + k)
            if d:
                return d
        return None
    if want != got:
        return "%s: expected %r got %r" % (path.lstrip("."), want, got)
    return None


def _field_of(d):
    return d.split(":")[0].split(".")[-1] if d else "?"


# ------------------------------------------------------------------------------------------------
# header codec cases: {"hdr": name, "f": fields}
# ------------------------------------------------------------------------------------------------
def hdr_ref_bytes(hdr, f):
    if hdr == "basic":
        return rc.build_basic(f["version"], f["nh"], 0, (f["mult"] << 2) | f["base"], f["rhl"])
    if hdr == "common":
        return rc.build_common(f["nh"], f["ht"], f["hst"], f["tc"], f["mobile"] << 7, f["pl"], f["mhl"])
    if hdr == "addr":
        return r_addr(f)
    if hdr == "lpv":
        return r_lpv(f)
    if hdr == "spv":
        return r_spv(f)
    if hdr == "gbc":
        return rc.build_gbc_ext(f["sn"], r_lpv(f["so"]), f["lat"], f["lon"], f["a"], f["b"], f["angle"])
    if hdr == "tsb":
        return rc.build_tsb_ext(f["sn"], r_lpv(f["so"]))
    if hdr == "guc":
        return rc.build_guc_ext(f["sn"], r_lpv(f["so"]), r_spv(f["de"]))
    if hdr == "lsreq":
        return rc.build_lsreq_ext(f["sn"], r_lpv(f["so"]), r_addr(f["req"]))
    if hdr == "lsrep":
        return rc.build_lsrep_ext(f["sn"], r_lpv(f["so"]), r_spv(f["de"]))
    if hdr in ("btpa", "btpb"):
        return rc.build_btp(f["port"], f["second"])
    raise ValueError(hdr)


def hdr_repo_decode(hdr, raw):
    """bytes -> field dict extracted from the repository's decoder output."""
    from flexstack.geonet.basic_header import BasicHeader
    from flexstack.geonet.common_header import CommonHeader
    from flexstack.geonet.gn_address import GNAddress
    from flexstack.geonet.position_vector import LongPositionVector, ShortPositionVector
    from flexstack.geonet.gbc_extended_header import GBCExtendedHeader
    from flexstack.geonet.tsb_extended_header import TSBExtendedHeader
    from flexstack.geonet.guc_extended_header import GUCExtendedHeader
    from flexstack.geonet.ls_extended_header import LSRequestExtendedHeader, LSReplyExtendedHeader
    from flexstack.btp.btp_header import BTPAHeader, BTPBHeader
    if hdr == "basic":
        o = BasicHeader.decode_from_bytes(raw)
        return {"version": o.version, "nh": o.nh.value, "mult": o.lt.multiplier, "base": o.lt.base.value, "rhl": o.rhl, "reserved": o.reserved}
    if hdr == "common":
        o = CommonHeader.decode_from_bytes(raw)
        return {"nh": o.nh.value, "ht": o.ht.value, "hst": o.hst.value, "tc": o.tc.encode_to_int(), "scf": int(o.tc.scf),
                "co": int(o.tc.channel_offload), "tc_id": o.tc.tc_id, "mobile": 1 if (o.flags & 0x80) else 0, "flags": o.flags,
                "pl": o.pl, "mhl": o.mhl, "reserved": o.reserved}
    if hdr == "addr":
        return x_addr(GNAddress.decode(raw))
    if hdr == "lpv":
        return x_lpv(LongPositionVector.decode(raw))
    if hdr == "spv":
        return x_spv(ShortPositionVector.decode(raw))
    if hdr == "gbc":
        o = GBCExtendedHeader.decode(raw)
        return {"sn": o.sn, "so": x_lpv(o.so_pv), "lat": o.latitude, "lon": o.longitude, "a": o.a, "b": o.b, "angle": o.angle,
                "reserved": o.reserved, "reserved2": o.reserved2}
    if hdr == "tsb":
        o = TSBExtendedHeader.decode(raw)
        return {"sn": o.sn, "so": x_lpv(o.so_pv), "reserved": o.reserved}
    if hdr == "guc":
        o = GUCExtendedHeader.decode(raw)
        return {"sn": o.sn, "so": x_lpv(o.so_pv), "de": x_spv(o.de_pv), "reserved": o.reserved}
    if hdr == "lsreq":
        o = LSRequestExtendedHeader.decode(raw)
        return {"sn": o.sn, "so": x_lpv(o.so_pv), "req": x_addr(o.request_gn_addr), "reserved": o.reserved}
    if hdr == "lsrep":
        o = LSReplyExtendedHeader.decode(raw)
        return {"sn": o.sn, "so": x_lpv(o.so_pv), "de": x_spv(o.de_pv), "reserved": o.reserved}
    if hdr == "btpa":
        o = BTPAHeader.decode(raw)
        return {"port": o.destination_port, "second": o.source_port}
    if hdr == "btpb":
        o = BTPBHeader.decode(raw)
        return {"port": o.destination_port, "second": o.destination_port_info}
    raise ValueError(hdr)


def hdr_repo_encode(hdr, f):
    from flexstack.geonet.basic_header import BasicHeader, BasicNH, LT, LTbase
    from flexstack.geonet.common_header import CommonHeader
    from flexstack.geonet.service_access_point import CommonNH, HeaderType, TrafficClass
    from flexstack.geonet.gbc_extended_header import GBCExtendedHeader
    from flexstack.geonet.tsb_extended_header import TSBExtendedHeader
    from flexstack.geonet.guc_extended_header import GUCExtendedHeader
    from flexstack.geonet.ls_extended_header import LSRequestExtendedHeader, LSReplyExtendedHeader
    from flexstack.btp.btp_header import BTPAHeader, BTPBHeader
    if hdr == "basic":
        return BasicHeader(version=f["version"], nh=BasicNH(f["nh"]), reserved=0, lt=LT(multiplier=f["mult"], base=LTbase(f["base"])), rhl=f["rhl"]).encode_to_bytes()
    if hdr == "common":
        tc = TrafficClass.decode_from_int(f["tc"])
        return CommonHeader(nh=CommonNH(f["nh"]), reserved=0, ht=HeaderType(f["ht"]), hst=_hst_enum(f["ht"], f["hst"]), tc=tc,
                            flags=f["mobile"] << 7, pl=f["pl"], mhl=f["mhl"]).encode_to_bytes()
    if hdr == "addr":
        return o_addr(f).encode()
    if hdr == "lpv":
        return o_lpv(f).encode()
    if hdr == "spv":
        return o_spv(f).encode()
    if hdr == "gbc":
        return GBCExtendedHeader(sn=f["sn"], so_pv=o_lpv(f["so"]), latitude=f["lat"], longitude=f["lon"], a=f["a"], b=f["b"], angle=f["angle"]).encode()
    if hdr == "tsb":
        return TSBExtendedHeader(sn=f["sn"], so_pv=o_lpv(f["so"])).encode()
    if hdr == "guc":
        return GUCExtendedHeader(sn=f["sn"], so_pv=o_lpv(f["so"]), de_pv=o_spv(f["de"])).encode()
    if hdr == "lsreq":
        return LSRequestExtendedHeader(sn=f["sn"], so_pv=o_lpv(f["so"]), request_gn_addr=o_addr(f["req"])).encode()
    if hdr == "lsrep":
        return LSReplyExtendedHeader(sn=f["sn"], so_pv=o_lpv(f["so"]), de_pv=o_spv(f["de"])).encode()
    if hdr == "btpa":
        return BTPAHeader(destination_port=f["port"], source_port=f["second"]).encode()
    if hdr == "btpb":
        return BTPBHeader(destination_port=f["port"], destination_port_info=f["second"]).encode()
    raise ValueError(hdr)


def check_header(hdr, f):
    """Both directions for one header and field vector."""
    vs = []
    raw = hdr_ref_bytes(hdr, f)
    # decode direction
    try:
        got = hdr_repo_decode(hdr, raw)
        want = dict(f)
        if hdr == "common":
            want = dict(f, scf=f["tc"] >> 7, co=(f["tc"] >> 6) & 1, tc_id=f["tc"] & 63, reserved=0)
        elif hdr != "addr" and hdr not in ("lpv", "spv", "btpa", "btpb"):
            want = dict(f, reserved=0)
            if hdr == "gbc":
                want["reserved2"] = 0
        d = _diff(want, got)
        if d:
            vs.append(violation(ID, "C02/decode:%s.%s" % (hdr, _field_of(d)), "%s decoder on conformant bytes %s: %s" % (hdr, raw.hex(), d)))
    except Exception as e:
        vs.append(violation(ID, "C02/decode-raises:%s:%s" % (hdr, type(e).__name__), "%s decoder raised %r on conformant bytes %s" % (hdr, e, raw.hex())))
    # encode direction
    try:
        enc = hdr_repo_encode(hdr, f)
        if enc != raw:
            pos = next((i for i in range(min(len(enc), len(raw))) if enc[i] != raw[i]), min(len(enc), len(raw)))
            vs.append(violation(ID, "C02/encode:%s@octet%d" % (hdr, pos), "%s encoder produced %s, reference %s (first difference at octet %d)" % (hdr, enc.hex(), raw.hex(), pos)))
    except Exception as e:
        vs.append(violation(ID, "C02/encode-raises:%s:%s" % (hdr, type(e).__name__), "%s encoder raised %r for %r" % (hdr, e, f)))
    return vs


def _nontrivial_fields(f):
    flat = core.jdump(f)
    def walk(d):
        for k, v in d.items():
            if isinstance(v, dict):
                yield from walk(v)
            else:
                yield k, v
    for k, v in walk(f):
        if k in ("lat", "lon", "speed") and isinstance(v, int) and v < 0:
            return True
        if k in ("tc",) and v:
            return True
        if k in ("pl",) and v >= 256:
            return True
        if k in ("sn", "port", "second") and v >= 32768:
            return True
    return False


def header_case_s():
    basic = st.fixed_dictionaries({"version": st.integers(0, 15), "nh": st.integers(0, 2), "mult": st.integers(0, 63), "base": st.integers(0, 3), "rhl": U8})
    common = st.integers(0, 6).flatmap(lambda ht: st.fixed_dictionaries({
        "nh": st.integers(0, 3), "ht": st.just(ht), "hst": st.sampled_from(HST_RANGE[ht]), "tc": U8, "mobile": st.integers(0, 1), "pl": U16, "mhl": U8}))
    gbc = st.fixed_dictionaries({"sn": U16, "so": lpv_s(), "lat": S32, "lon": S32, "a": U16, "b": U16, "angle": U16})
    tsb = st.fixed_dictionaries({"sn": U16, "so": lpv_s()})
    guc = st.fixed_dictionaries({"sn": U16, "so": lpv_s(), "de": spv_s()})
    lsreq = st.fixed_dictionaries({"sn": U16, "so": lpv_s(), "req": addr_s()})
    btp = st.fixed_dictionaries({"port": U16, "second": U16})
    table = {"basic": basic, "common": common, "addr": addr_s(), "lpv": lpv_s(), "spv": spv_s(), "gbc": gbc, "tsb": tsb, "guc": guc,
             "lsreq": lsreq, "lsrep": guc, "btpa": btp, "btpb": btp}
    return st.sampled_from(sorted(table)).flatmap(lambda h: st.fixed_dictionaries({"hdr": st.just(h), "f": table[h]}))


def run_header_case(case):
    vs = check_header(case["hdr"], case["f"])
    return Outcome(vs, labels=["hdr:" + case["hdr"]], nontrivial=_nontrivial_fields(case["f"]))


def job_headers(n, seed):
    return core.hyp_run(header_case_s(), run_header_case, n=n, seed=seed, kind="header")


# ------------------------------------------------------------------------------------------------
# per-field exhaustive
# ------------------------------------------------------------------------------------------------
BASE_LPV = [
    {"addr": {"m": 0, "st": 5, "mid": "020000000001"}, "tst": 0x12345678, "lat": 413000000, "lon": 21000000, "pai": 1, "speed": 1200, "heading": 900},
    {"addr": {"m": 1, "st": 12, "mid": "ffffffffffff"}, "tst": 0xFFFFFFFF, "lat": -337000000, "lon": -707000000, "pai": 0, "speed": -5, "heading": 3599},
    {"addr": {"m": 0, "st": 0, "mid": "000000000000"}, "tst": 0, "lat": 0, "lon": 0, "pai": 0, "speed": 0, "heading": 0},
    {"addr": {"m": 1, "st": 1, "mid": "a5a5a5a5a5a5"}, "tst": 0x80000000, "lat": -2**31, "lon": 2**31 - 1, "pai": 1, "speed": 16383, "heading": 65535},
    {"addr": {"m": 0, "st": 7, "mid": "5a5a5a5a5a5a"}, "tst": 0x7FFFFFFF, "lat": 2**31 - 1, "lon": -2**31, "pai": 1, "speed": -16384, "heading": 1},
    {"addr": {"m": 0, "st": 10, "mid": "0123456789ab"}, "tst": 1, "lat": -1, "lon": -1, "pai": 0, "speed": -1, "heading": 32768},
    {"addr": {"m": 1, "st": 3, "mid": "fedcba987654"}, "tst": 0xDEADBEEF, "lat": 900000000, "lon": 1800000000, "pai": 1, "speed": 1, "heading": 255},
    {"addr": {"m": 0, "st": 9, "mid": "00ff00ff00ff"}, "tst": 0x0000FFFF, "lat": -900000000, "lon": -1800000000, "pai": 0, "speed": 8191, "heading": 256},
]


def _sweeps():
    """Yields (hdr, base fields, field path, iterable of values)."""
    for i, lp in enumerate(BASE_LPV):
        other = BASE_LPV[(i + 3) % 8]
        spv = {k: other[k] for k in ("addr", "tst", "lat", "lon")}
        basic = {"version": (i * 3) % 16, "nh": i % 3, "mult": (i * 9) % 64, "base": i % 4, "rhl": (i * 37) % 256}
        for fld, rng in (("version", range(16)), ("nh", range(3)), ("mult", range(64)), ("base", range(4)), ("rhl", range(256))):
            yield "basic", basic, (fld,), rng
        ht = [2, 3, 4, 5, 6, 1, 4, 5][i]
        common = {"nh": i % 4, "ht": ht, "hst": HST_RANGE[ht][i % len(HST_RANGE[ht])], "tc": (i * 41) % 256, "mobile": i % 2, "pl": (i * 9973) % 65536, "mhl": (i * 53) % 256}
        for fld, rng in (("nh", range(4)), ("tc", range(256)), ("mobile", range(2)), ("pl", range(65536)), ("mhl", range(256))):
            yield "common", common, (fld,), rng
        for h in range(7):
            for hs in HST_RANGE[h]:
                yield "common", dict(common, ht=h, hst=hs), ("mobile",), range(2)
        yield "lpv", lp, ("heading",), range(65536)
        yield "lpv", lp, ("speed",), range(-16384, 16384)
        yield "lpv", lp, ("pai",), range(2)
        yield "lpv", lp, ("addr", "st"), range(13)
        yield "lpv", lp, ("addr", "m"), range(2)
        gbc = {"sn": (i * 8191) % 65536, "so": lp, "lat": other["lat"], "lon": other["lon"], "a": (i * 7919) % 65536, "b": (i * 104729) % 65536, "angle": (i * 51) % 360}
        for fld in ("sn", "a", "b", "angle"):
            yield "gbc", gbc, (fld,), range(65536)
        yield "tsb", {"sn": 0, "so": lp}, ("sn",), range(65536)
        yield "guc", {"sn": 0, "so": lp, "de": spv}, ("sn",), range(65536)
        yield "lsreq", {"sn": 0, "so": lp, "req": other["addr"]}, ("sn",), range(65536)
        yield "lsreq", {"sn": i, "so": lp, "req": other["addr"]}, ("req", "st"), range(13)
        yield "lsrep", {"sn": 0, "so": lp, "de": spv}, ("sn",), range(65536)
        for hdr in ("btpa", "btpb"):
            b = {"port": (i * 8191 + 2001) % 65536, "second": (i * 4093) % 65536}
            yield hdr, b, ("port",), range(65536)
            yield hdr, b, ("second",), range(65536)


def _set(f, path, v):
    import copy
    g = copy.deepcopy(f)
    d = g
    for k in path[:-1]:
        d = d[k]
    d[path[-1]] = v
    return g


def job_field_sweeps(shard, nshards):
    part = Partial()
    seen = set()
    n = nt = 0
    for idx, (hdr, base, path, rng) in enumerate(_sweeps()):
        if idx % nshards != shard:
            continue
        for v in rng:
            f = _set(base, path, v)
            vs = check_header(hdr, f)
            n += 1
            nontriv = (v != 0)
            nt += nontriv
            for x in vs:
                part.sig_counts[x["signature"]] += 1
                if x["signature"] not in seen:
                    seen.add(x["signature"])
                    x["case"] = {"hdr": hdr, "f": f}
                    x["kind"] = "header"
                    part.violations.append(x)
        if idx < 2:
            part.samples.append({"kind": "field-sweep", "nontrivial": True, "case": {"hdr": hdr, "field": list(path), "values": "%d..%d" % (rng[0], rng[-1]), "base": base}})
    part.evaluations += n
    part.nontrivial_extra += nt
    part.subcount("per-field-exhaustive", evaluations=n, exhaustive=True)
    return part


# ------------------------------------------------------------------------------------------------
# emission through the real router
# ------------------------------------------------------------------------------------------------
TRANSPORTS = ["shb", "gbc", "gac", "guc", "lsreq", "lsrep", "beacon", "fwd_tsb", "fwd_gbc", "fwd_gac", "fwd_guc", "fwd_lsreq", "fwd_lsrep"]


def emission_case_s():
    return st.fixed_dictionaries({
        "transport": st.sampled_from(TRANSPORTS),
        "mobile": st.integers(0, 1),
        "default_hl": st.sampled_from([1, 2, 10, 255]) | st.integers(1, 255),
        "default_lt": st.sampled_from([1, 60, 600]) | st.integers(1, 600),
        "ego": lpv_s(),
        "peer": lpv_s(),
        "third": lpv_s(),
        "btp": st.sampled_from(["A", "B"]),
        "port": U16, "second": U16,
        "tc": U8,
        "payload": st.one_of(st.just(""), st.binary(max_size=40).map(H), st.integers(1000, 1390).flatmap(lambda n: st.binary(min_size=n, max_size=n)).map(H)),
        "shape": st.integers(0, 2),
        "a": st.integers(1, 65535), "b": st.integers(1, 65535), "angle": st.integers(0, 359),
        "hop_limit": U8,
        "lifetime_ms": st.none() | st.integers(0, 999_999),
        "sn0": st.sampled_from([0, 65533, 65534, 32766]) | st.integers(0, 65534),
        "rhl": st.integers(2, 255),
        "fsn": U16,
        # forwarded GUC / LS reply whose destination is a neighbour: how the DE PV in the packet relates to the location-table PV
        "de_rel": st.sampled_from([None, None, "older", "equal", "newer", "older_across_wrap", "newer_across_wrap"]),
    })


def _fix_case(case):
    """Make the three addresses distinct and unicast (sound inputs: a station has a unicast address)."""
    c = dict(case)
    for i, k in enumerate(("ego", "peer", "third")):
        p = dict(c[k])
        a = dict(p["addr"])
        mid = bytearray(B(a["mid"]))
        mid[5] = (mid[5] & 0xFC) | i
        a["mid"] = H(mid)
        a["m"] = 0
        p["addr"] = a
        c[k] = p
    return c


def run_emission_case(case0):
    from flexstack.geonet import router as gr, location_table as ltm
    from flexstack.geonet.mib import AreaForwardingAlgorithm, GnIsMobile
    from flexstack.geonet.service_access_point import (Area, CommonNH, GeoAnycastHST, GeoBroadcastHST, GNDataRequest, HeaderSubType,
                                                       HeaderType, PacketTransportType, TopoBroadcastHST, TrafficClass)
    from flexstack.btp.service_access_point import BTPDataRequest
    from ..stack import Station
    from ..vclock import VClock, tst32

    case = _fix_case(case0)
    t = case["transport"]
    labels = ["emit:" + t]
    from ..vclock import utc_before_wrap
    de_rel = case.get("de_rel") if t in ("fwd_guc", "fwd_lsrep") else None
    clock = VClock(utc_before_wrap(50) if (de_rel or "").endswith("across_wrap") else 1_700_000_000.0)
    clock.install([gr, ltm])
    try:
        ego, peer, third = case["ego"], case["peer"], case["third"]
        now_tst = tst32(clock.now)
        st_ = Station(None, B(ego["addr"]["mid"]), st=ego["addr"]["st"], mib_kwargs=dict(
            itsGnIsMobile=GnIsMobile(case["mobile"]), itsGnDefaultHopLimit=case["default_hl"], itsGnDefaultPacketLifetime=case["default_lt"],
            itsGnAreaForwardingAlgorithm=AreaForwardingAlgorithm.SIMPLE, itsGnMaxGeoAreaSize=10**9), ports=())
        ego = dict(ego, tst=now_tst)
        st_.gn.ego_position_vector = o_lpv(ego)
        st_.gn.sequence_number = case["sn0"]
        payload = B(case["payload"])
        btp_hdr = rc.build_btp(case["port"], case["second"])
        cnh = rc.CNH_BTPA if case["btp"] == "A" else rc.CNH_BTPB
        flags = case["mobile"] << 7
        # a neighbour (peer) known through a beacon, time-stamped now
        peer = dict(peer, tst=now_tst)
        third = dict(third, tst=now_tst)
        st_.receive(rc.build_packet("beacon", so=_so(peer)))
        st_.ll.sent.clear()
        lt_req = case["lifetime_ms"]
        lt_code_ms = rc.lt_best_ms(lt_req if lt_req is not None else case["default_lt"] * 1000)
        hl = case["hop_limit"] if case["hop_limit"] > 1 else case["default_hl"]
        sn1 = (case["sn0"] + 1) % 65535
        tcobj = TrafficClass.decode_from_int(case["tc"])
        area = Area(latitude=ego["lat"], longitude=ego["lon"], a=case["a"], b=case["b"], angle=case["angle"])
        expected = None
        vs = []

        def breq(ptt, **kw):
            return BTPDataRequest(btp_type=CommonNH.BTP_A if case["btp"] == "A" else CommonNH.BTP_B, source_port=case["second"],
                                  destination_port=case["port"], destination_port_info=case["second"], gn_packet_transport_type=ptt,
                                  gn_area=area, gn_max_hop_limit=case["hop_limit"], gn_max_packet_lifetime=None if lt_req is None else lt_req / 1000.0,
                                  traffic_class=tcobj, data=payload, length=len(payload), **kw)

        def common(ht, hst, mhl, nh=cnh, tc=case["tc"], pl=len(payload) + 4):
            return rc.build_common(nh, ht, hst, tc, flags, pl, mhl)

        try:
            if t == "beacon":
                st_.call(st_.gn.gn_data_request_beacon)
                expected = rc.build_basic(1, 1, 0, _code(rc.lt_best_ms(case["default_lt"] * 1000)), 1) + common(1, 0, 1, nh=0, tc=0, pl=0) + r_lpv(ego)
            elif t == "shb":
                st_.call(st_.btp.btp_data_request, breq(PacketTransportType(HeaderType.TSB, TopoBroadcastHST.SINGLE_HOP)))
                expected = rc.build_basic(1, 1, 0, _code(lt_code_ms), 1) + common(5, 0, 1) + r_lpv(ego) + b"\0\0\0\0" + btp_hdr + payload
            elif t in ("gbc", "gac"):
                ht = 4 if t == "gbc" else 3
                ptt = PacketTransportType(HeaderType.GEOBROADCAST, GeoBroadcastHST(case["shape"])) if t == "gbc" else PacketTransportType(HeaderType.GEOANYCAST, GeoAnycastHST(case["shape"]))
                st_.call(st_.btp.btp_data_request, breq(ptt))
                expected = rc.build_basic(1, 1, 0, _code(lt_code_ms), hl) + common(ht, case["shape"], hl) + \
                    rc.build_gbc_ext(sn1, r_lpv(ego), ego["lat"], ego["lon"], case["a"], case["b"], case["angle"]) + btp_hdr + payload
            elif t == "guc":
                tcobj = TrafficClass.decode_from_int(case["tc"] & 0x7F)   # SCF at a local optimum means "buffer", not "send"
                st_.call(st_.btp.btp_data_request, breq(PacketTransportType(HeaderType.GEOUNICAST, HeaderSubType.UNSPECIFIED), gn_destination_address=o_addr(peer["addr"])))
                expected = rc.build_basic(1, 1, 0, _code(lt_code_ms), hl) + common(2, 0, hl, tc=case["tc"] & 0x7F) + \
                    rc.build_guc_ext(sn1, r_lpv(ego), r_spv(peer)) + btp_hdr + payload
            elif t == "lsreq":
                st_.call(st_.btp.btp_data_request, breq(PacketTransportType(HeaderType.GEOUNICAST, HeaderSubType.UNSPECIFIED), gn_destination_address=o_addr(third["addr"])))
                dlt = _code(rc.lt_best_ms(case["default_lt"] * 1000))
                expected = rc.build_basic(1, 1, 0, dlt, case["default_hl"]) + common(6, 0, case["default_hl"], nh=0, tc=0, pl=0) + \
                    rc.build_lsreq_ext(sn1, r_lpv(ego), r_addr(third["addr"]))
            elif t == "lsrep":
                # an LS request of `third` for our address arrives -> we answer with an LS reply
                # EN 302 636-4-1 10.3.7.3 (table 25): the DE PV of the reply is the requester's PV held in the LOCATION TABLE, which differs
                # from the SO PV of a delayed request when a newer packet of the requester was processed before it
                ls_rel = {"older": "older", "older_across_wrap": "older", "newer": "newer", "newer_across_wrap": "newer"}.get(case.get("de_rel"))
                req_so, table_pv = third, third
                if ls_rel:
                    st_.receive(rc.build_packet("beacon", so=_so(third)))
                    st_.ll.sent.clear()
                    moved = dict(third, lat=third["lat"] + 1000, lon=third["lon"] - 1000)
                    if ls_rel == "older":
                        req_so = dict(moved, tst=(third["tst"] - 1000) % (1 << 32))
                    else:
                        clock.advance(1.0)
                        req_so = table_pv = dict(moved, tst=tst32(clock.now))
                    labels.append("lsrep-requester-known:" + ls_rel)
                st_.receive(rc.build_packet("lsreq", so=_so(req_so), sn=case["fsn"], rhl=case["rhl"], mhl=case["rhl"], req_addr=r_addr(ego["addr"])))
                dlt = _code(rc.lt_best_ms(case["default_lt"] * 1000))
                expected = rc.build_basic(1, 1, 0, dlt, case["default_hl"]) + common(6, 1, case["default_hl"], nh=0, tc=0, pl=0) + \
                    rc.build_lsrep_ext(sn1, r_lpv(ego), r_spv(table_pv))
            else:
                # forwarded copies: a conformant packet from `third` not addressed to us, RHL >= 2
                kind = t[4:]
                far = dict(lat=_far(ego["lat"]), lon=ego["lon"])
                kw = dict(so=_so(third), payload=btp_hdr + payload, lt=_code(lt_code_ms), rhl=case["rhl"], mhl=case["rhl"], nh=cnh, tc=case["tc"] & 0x7F,
                          mobile=case["mobile"], sn=case["fsn"])
                if kind in ("gbc", "gac"):
                    # gbc: we are inside (area forwarding, SIMPLE); gac: we are outside (forward towards the area)
                    if kind == "gbc":
                        kw["area"] = {"lat": ego["lat"], "lon": ego["lon"], "a": case["a"], "b": case["b"], "angle": case["angle"], "shape": case["shape"]}
                    else:
                        kw["area"] = {"lat": far["lat"], "lon": far["lon"], "a": 10, "b": 10, "angle": case["angle"], "shape": case["shape"]}
                        kw["so"] = dict(kw["so"], pai=0)
                elif kind in ("guc", "lsrep") and de_rel:
                    # the destination is a neighbour (its beacon was received): EN 302 636-4-1 C.3 - the forwarder puts its own, strictly
                    # newer (modulo 2^32) PV of the destination into the packet, and leaves the packet's PV alone otherwise
                    if de_rel == "older_across_wrap":
                        clock.advance(0.1)
                    t_loc = tst32(clock.now)
                    st_.receive(rc.build_packet("beacon", so=_so(dict(peer, tst=t_loc))))
                    n_before = len(st_.ll.sent)
                    if de_rel == "newer_across_wrap":
                        clock.advance(0.1)
                    t_de = {"older": t_loc - 1000, "equal": t_loc, "newer": t_loc + 1000, "older_across_wrap": (1 << 32) - 200, "newer_across_wrap": 20}[de_rel] % (1 << 32)
                    kw["de"] = {"addr": r_addr(peer["addr"]), "tst": t_de, "lat": far["lat"], "lon": far["lon"]}
                    labels.append("fwd-de-neighbour:" + de_rel)
                elif kind in ("guc", "lsrep"):
                    kw["de"] = {"addr": r_addr({"m": 0, "st": 5, "mid": "0200000000fe"}), "tst": case["fsn"], "lat": far["lat"], "lon": far["lon"]}
                elif kind == "lsreq":
                    kw["req_addr"] = r_addr({"m": 0, "st": 5, "mid": "0200000000fe"})
                if kind in ("lsreq", "lsrep"):
                    kw["payload"] = b""
                pkt = rc.build_packet(kind, **kw)
                st_.receive(pkt)
                expected = pkt[:3] + bytes([case["rhl"] - 1]) + pkt[4:]
                if kind in ("guc", "lsrep") and de_rel in ("older", "older_across_wrap"):
                    expected = expected[:40] + rc.build_spv(r_addr(peer["addr"]), t_loc, peer["lat"], peer["lon"]) + expected[60:]
        except Exception as e:
            vs.append(violation(ID, "C02/emission-raises:%s:%s" % (t, type(e).__name__), "%s raised %r" % (t, e)))
            return Outcome(vs, labels=labels, nontrivial=_nontrivial_fields(case))
        if st_.errors:
            vs.append(violation(ID, "C02/emission-raises:%s:%s" % (t, st_.errors[0][0]), "%s: receive path raised %s %s" % (t, st_.errors[0][0], st_.errors[0][1])))
        sent = st_.ll.sent
        if len(sent) != 1:
            vs.append(violation(ID, "C02/emission-count:%s" % t, "%s: %d packets emitted, expected exactly 1" % (t, len(sent))))
        else:
            got = _canon_lt(sent[0])
            expected = _canon_lt(expected)
            if got != expected:
                if len(got) != len(expected):
                    regions = ["length"]
                else:
                    regions = sorted({_region(t, i) for i in range(len(got)) if got[i] != expected[i]})
                for region in regions[:6]:
                    vs.append(violation(ID, "C02/emission:%s@%s" % (t, region), "%s: emitted %s..., reference %s... differ at %s; lengths %d/%d" % (
                        t, got[:64].hex(), expected[:64].hex(), region, len(got), len(expected))))
        return Outcome(vs, labels=labels, nontrivial=_nontrivial_fields(case))
    finally:
        clock.uninstall()


def _region(t, pos):
    if pos < 4:
        return "basic[%d]" % pos
    if pos < 12:
        return "common[%d]" % (pos - 4)
    if pos < 60:
        return "extended+%d" % ((pos - 12) // 4 * 4)
    return "extended+48.."


def _canon_lt(pkt):
    """The standard does not prescribe which base encodes a lifetime: compare the LT octet by value."""
    if len(pkt) < 4:
        return pkt
    c = _code(rc.lt_decode(pkt[2]))
    return pkt[:2] + bytes([c if c is not None else pkt[2]]) + pkt[3:]


def _far(lat):
    return lat - 50_000_000 if lat > 0 else lat + 50_000_000


def _code(ms):
    for base_i in (3, 2, 1, 0):
        base = rc.LT_BASE_MS[base_i]
        if ms % base == 0 and ms // base <= 63 and ms > 0:
            return ((ms // base) << 2) | base_i
    return 0 if ms == 0 else None


def _so(p):
    return {"addr": r_addr(p["addr"]), "tst": p["tst"], "lat": p["lat"], "lon": p["lon"], "pai": p["pai"], "speed": p["speed"], "heading": p["heading"]}


def job_emission(n, seed):
    return core.hyp_run(emission_case_s(), run_emission_case, n=n, seed=seed, kind="emission")


# ------------------------------------------------------------------------------------------------
def jobs(tier, seed):
    k = 1 if tier == "quick" else 30
    js = []
    for s in range(16):
        js.append({"fn": "vf.props.c02:job_field_sweeps", "args": {"shard": s, "nshards": 16}})
    for s in range(8):
        js.append({"fn": "vf.props.c02:job_headers", "args": {"n": 3000 * k, "seed": seed * 1000 + s}})
    for s in range(8):
        js.append({"fn": "vf.props.c02:job_emission", "args": {"n": 1500 * k, "seed": seed * 1000 + 100 + s}})
    return js


def replay(kind, case):
    if kind == "header":
        return run_header_case(case)
    if kind == "emission":
        return run_emission_case(case)
    raise ValueError(kind)

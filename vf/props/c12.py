"""C12 - LDM behaves as a store of objects with registration gating and expiry."""
from __future__ import annotations

from hypothesis import strategies as st

from .. import core
from ..core import Outcome, violation

ID = "C12"
RULE = ("Histories of 1..120 operations (thorough: 300) on the facade returned by LDMFactory (Dictionary back-end, reactive maintenance and "
        "service on a virtual clock): register / deregister provider and consumer (valid and invalid application ids and permissions), add "
        "(CAM / DENM / VAM / POI dictionaries, validity 0..30 s and very long ones (1e5 s, 2^32-1 s, beyond the 42-bit timestamp range), placed inside the area of maintenance, right at the LDM position, or far "
        "outside), update (existing / unknown id, same / other type, registered / unregistered requester), delete (same classes), unfiltered "
        "request per type selection, explicit collect_trash, clock advance 0..12 s. A reference map id -> (provider, timestamp, location, "
        "content, validity) plus two registries predicts every response; after every step every stored object is read back through "
        "IF.LDM.4 and compared. Non-trivial = history with a delete or update of an existing object followed by a query, an expiry followed "
        "by a query, or a refused request.")
ASSUMPTIONS = [
    "validity is judged at one-second resolution: an object must be returned while more than 1 s of validity is left, must be gone once an explicit maintenance pass ran more than 1 s after its expiry, and is optional in between (the reactive pass is not modelled)",
    "objects far outside the area of maintenance may or may not be collected: no persistence verdict for them",
    "the observer consumer (application id 1) and the registries are read through the service API after every step",
]

OBSERVER = 1
APPS = [2, 16, 3, 1]          # CAM, VAM, POI, DENM
TYPES = {"cam": 2, "denm": 1, "vam": 16, "poi": 3}
LDM_POS = (413000000, 21000000)


def op_s():
    app = st.sampled_from([2, 2, 2, 16, 16, 3, 99, 0])
    return st.one_of(
        st.fixed_dictionaries({"op": st.just("reg_p"), "app": app, "perm": st.sampled_from(["own", "own", "other", "none"])}),
        st.fixed_dictionaries({"op": st.just("dereg_p"), "app": app}),
        st.fixed_dictionaries({"op": st.just("reg_c"), "app": app, "perm": st.sampled_from(["own", "own", "other", "none"])}),
        st.fixed_dictionaries({"op": st.just("dereg_c"), "app": app}),
        st.fixed_dictionaries({"op": st.just("add"), "app": app, "type": st.sampled_from(["cam", "cam", "vam", "denm", "poi"]), "validity": st.sampled_from([0, 1, 2, 5, 30, 30, 100000, 4294967295, 4398046511]),
                               "place": st.sampled_from(["inside", "inside", "inside", "inside", "near", "outside"]), "seed": st.sampled_from([0, 0, 1]) | st.integers(0, 999)}),
        st.fixed_dictionaries({"op": st.just("add"), "app": app, "type": st.sampled_from(["cam", "cam", "vam", "denm", "poi"]), "validity": st.sampled_from([0, 1, 2, 5, 30, 30, 100000, 4294967295, 4398046511]),
                               "place": st.sampled_from(["inside", "inside", "inside", "inside", "near", "outside"]), "seed": st.integers(0, 999)}),
        st.fixed_dictionaries({"op": st.just("update"), "app": app, "ref": st.integers(0, 40), "type": st.sampled_from(["same", "same", "other"]), "seed": st.integers(0, 999)}),
        st.fixed_dictionaries({"op": st.just("delete"), "app": app, "ref": st.integers(0, 40)}),
        st.fixed_dictionaries({"op": st.just("request"), "app": st.sampled_from([2, 16, 3, 99]), "types": st.sampled_from([["cam"], ["vam"], ["cam", "vam"], ["denm", "poi"], ["cam", "denm", "vam", "poi"], []])}),
        st.fixed_dictionaries({"op": st.just("gc")}),
        st.fixed_dictionaries({"op": st.just("adv"), "ms": st.sampled_from([0, 300, 999, 1000, 1001, 2500, 6000, 12000])}),
    )


PREAMBLE = [{"op": "reg_p", "app": 2, "perm": "own"}, {"op": "reg_p", "app": 16, "perm": "own"}, {"op": "reg_p", "app": 3, "perm": "own"},
            {"op": "reg_c", "app": 2, "perm": "own"}, {"op": "reg_c", "app": 16, "perm": "own"}]


def case_s(max_ops=120):
    body = st.lists(op_s(), min_size=1, max_size=max_ops)
    return st.tuples(st.sampled_from([0, 5, 5, 5, 2]), body).map(lambda t: {"ops": PREAMBLE[:t[0]] + t[1]})


def make_obj(kind, seed):
    return {"header": {"protocolVersion": 2, "messageId": TYPES[kind], "stationId": 1000 + seed},
            kind: {"generationDeltaTime": seed * 13 % 65536, "payload": {"value": seed, "text": "obj-%d" % seed}}}


def place_pos(place, seed):
    if place == "inside":       # 30..800 m from the LDM position
        return LDM_POS[0] + 3000 + (seed % 50) * 1400, LDM_POS[1] - 2500 - (seed % 37) * 900
    if place == "near":         # within a few metres
        return LDM_POS[0] + (seed % 7) * 30, LDM_POS[1] + (seed % 5) * 30
    return LDM_POS[0] + 900000 + seed * 100, LDM_POS[1] + 700000


def run_case(case):
    from flexstack.facilities.local_dynamic_map.factory import LDMFactory
    from flexstack.facilities.local_dynamic_map.ldm_classes import (AccessPermission, AddDataProviderReq, Circle, DeleteDataProviderReq, DeleteDataProviderResult,
                                                                    DeregisterDataConsumerReq, DeregisterDataProviderReq, GeometricArea, Location, RegisterDataConsumerReq,
                                                                    RegisterDataProviderReq, RegisterDataProviderResult, RequestDataObjectsReq, RequestedDataObjectsResult,
                                                                    TimestampIts, TimeValidity, UpdateDataProviderReq, UpdateDataProviderResult)
    import flexstack.facilities.local_dynamic_map.ldm_maintenance as lm
    import flexstack.facilities.local_dynamic_map.ldm_maintenance_reactive as lmr
    import flexstack.facilities.local_dynamic_map.ldm_service_reactive as lsr
    from ..vclock import VClock, its_ms

    clock = VClock(1_700_000_000.0)
    clock.install([lm, lmr, lsr])
    vs = []
    labels = set()
    try:
        ldm = LDMFactory().create_ldm(Location.initializer(latitude=LDM_POS[0], longitude=LDM_POS[1]), "Reactive", "Reactive", "Dictionary")
        i3, i4 = ldm.if_ldm_3, ldm.if_ldm_4
        area = GeometricArea(Circle(1000), None, None)
        i4.register_data_consumer(RegisterDataConsumerReq(application_id=OBSERVER, access_permisions=(AccessPermission.DENM,), area_of_interest=area))
        providers, consumers = set(), {OBSERVER}
        objs = {}          # id -> dict(app, ts, lat, lon, obj, validity, type, place, state) state in alive|deleted
        order = []         # ids in creation order (for refs)
        next_id = 0
        gc_runs = []       # virtual times of explicit maintenance passes
        mutated_then_query = False

        def perms(app, how):
            if how == "none":
                return ()
            if how == "other":
                return (AccessPermission(5),)
            return (AccessPermission(app),) if 1 <= app <= 21 else (AccessPermission(2),)

        def valid_app(app):
            return 1 <= app <= 21

        def status(o, now_s):
            """'required' | 'optional' | 'gone' for a stored, not deleted object at virtual time now_s."""
            if o["state"] != "alive":
                return "gone"
            expiry = o["ts"] / 1000.0 + o["validity"]
            now_its = its_ms(now_s) / 1000.0
            if o["place"] == "near" and (gc_runs_after(o["added_at"]) or o["reactive_uncertain"]):
                return "optional-near"
            if any(g_its > expiry + 1.0 for g_its in o["gcs"]):
                return "gone"
            if now_its < expiry - 1.0 and o["place"] != "outside":
                return "required"
            return "optional"

        def gc_runs_after(t):
            return any(g >= t for g in gc_runs)

        def read_back(step, opdesc):
            """Every stored object of every type, through IF.LDM.4, compared with the model."""
            nonlocal mutated_then_query
            resp = i4.request_data_objects(RequestDataObjectsReq(application_id=OBSERVER, data_object_type=(1, 2, 3, 16), priority=None, order=None, filter=None))
            if resp.result != RequestedDataObjectsResult.SUCCEED:
                vs.append(violation(ID, "C12/observer-request-refused", "step %d: observer request answered %s" % (step, resp.result)))
                return
            seen = []
            for rec in resp.data_objects:
                if not isinstance(rec, dict) or "dataObject" not in rec:
                    vs.append(violation(ID, "C12/stored-record-corrupted", "step %d (%s): a stored record lost its envelope: %r" % (step, opdesc, str(rec)[:200])))
                    continue
                match = [i for i, o in objs.items() if o["state"] == "alive" and i not in seen and o["obj"] == rec["dataObject"] and o["ts"] == rec.get("timestamp")
                         and (o["lat"], o["lon"]) == (rec["location"]["referencePosition"]["latitude"], rec["location"]["referencePosition"]["longitude"])
                         and o["validity"] == rec.get("timeValidity") and o["app"] == rec.get("application_id")]
                if not match:
                    dead = [i for i, o in objs.items() if o["obj"] == rec["dataObject"]]
                    if dead and all(objs[i]["state"] == "deleted" for i in dead):
                        vs.append(violation(ID, "C12/deleted-object-returned", "step %d (%s): object %r was deleted but is still returned" % (step, opdesc, dead)))
                    elif dead and all(status(objs[i], clock.now) == "gone" for i in dead):
                        vs.append(violation(ID, "C12/expired-object-returned-after-maintenance", "step %d (%s): object %r expired and a maintenance pass ran, but it is still returned" % (step, opdesc, dead)))
                    else:
                        vs.append(violation(ID, "C12/returned-object-differs-from-stored", "step %d (%s): returned record matches no live object with its content/timestamp/location/validity/provider: %r" % (step, opdesc, str(rec)[:300])))
                else:
                    seen.append(match[0])
            for i, o in objs.items():
                stt = status(o, clock.now)
                if stt == "required" and i not in seen:
                    vs.append(violation(ID, "C12/live-object-missing:%s" % o["place"], "step %d (%s): object %d (type %s, validity %d s, added %.1f s ago, place %s) is not returned" % (
                        step, opdesc, i, o["type"], o["validity"], clock.now - o["added_at"], o["place"])))
                if stt == "gone" and i in seen:
                    pass  # reported above
                if stt == "optional-near" and i not in seen and o["state"] == "alive":
                    expiry = o["ts"] / 1000.0 + o["validity"]
                    if its_ms(clock.now) / 1000.0 < expiry - 1.0:
                        vs.append(violation(ID, "C12/object-at-ldm-position-collected", "step %d: object %d placed within metres of the LDM position was collected by maintenance while still valid" % (step, i)))
                        o["state"] = "deleted"
            # registries
            if ldm.ldm_service.get_data_provider_its_aid() != providers:
                vs.append(violation(ID, "C12/provider-registry-differs", "step %d (%s): providers %r, model %r" % (step, opdesc, sorted(ldm.ldm_service.get_data_provider_its_aid()), sorted(providers))))
                providers.clear()
                providers.update(ldm.ldm_service.get_data_provider_its_aid())
            if ldm.ldm_service.get_data_consumer_its_aid() != consumers:
                vs.append(violation(ID, "C12/consumer-registry-differs", "step %d (%s): consumers %r, model %r" % (step, opdesc, sorted(ldm.ldm_service.get_data_consumer_its_aid()), sorted(consumers))))
                consumers.clear()
                consumers.update(ldm.ldm_service.get_data_consumer_its_aid())

        for step, op in enumerate(case["ops"]):
            k = op["op"]
            desc = str(op)
            try:
                if k == "adv":
                    clock.advance(op["ms"] / 1000.0)
                    continue
                if k == "gc":
                    ldm.ldm_maintenance.collect_trash()
                    gc_runs.append(clock.now)
                    for o in objs.values():
                        if o["state"] == "alive":
                            o["gcs"].append(its_ms(clock.now) / 1000.0)
                    labels.add("explicit-maintenance")
                elif k == "reg_p":
                    r = i3.register_data_provider(RegisterDataProviderReq(application_id=op["app"], access_permissions=perms(op["app"], op["perm"]), time_validity=TimeValidity(100)))
                    ok = valid_app(op["app"]) and op["perm"] == "own" or (valid_app(op["app"]) and op["app"] == 1 and op["perm"] != "none")
                    if ok:
                        providers.add(op["app"])
                    if (r.result == RegisterDataProviderResult.ACCEPTED) != ok:
                        vs.append(violation(ID, "C12/provider-registration-result", "step %d: %r answered %s, expected %s" % (step, op, r.result, "accepted" if ok else "rejected")))
                    if not ok:
                        labels.add("refused")
                elif k == "dereg_p":
                    r = i3.deregister_data_provider(DeregisterDataProviderReq(application_id=op["app"]))
                    ok = op["app"] in providers
                    providers.discard(op["app"])
                    if (int(r.result) == 0) != ok:
                        vs.append(violation(ID, "C12/provider-deregistration-result", "step %d: %r answered %s" % (step, op, r.result)))
                elif k == "reg_c":
                    r = i4.register_data_consumer(RegisterDataConsumerReq(application_id=op["app"], access_permisions=perms(op["app"], op["perm"]), area_of_interest=area))
                    ok = valid_app(op["app"]) and (op["perm"] == "own" or (op["perm"] == "other" and op["app"] in (1, 4, 5)))
                    if ok:
                        consumers.add(op["app"])
                    if (int(r.result) == 0) != ok:
                        vs.append(violation(ID, "C12/consumer-registration-result", "step %d: %r answered %s, expected %s" % (step, op, r.result, "accepted" if ok else "rejected")))
                    if not ok:
                        labels.add("refused")
                elif k == "dereg_c":
                    r = i4.deregister_data_consumer(DeregisterDataConsumerReq(application_id=op["app"]))
                    ok = op["app"] in consumers
                    consumers.discard(op["app"])
                    if (int(r.ack) == 0) != ok:
                        vs.append(violation(ID, "C12/consumer-deregistration-result", "step %d: %r answered %s" % (step, op, r.ack)))
                elif k == "add":
                    lat, lon = place_pos(op["place"], op["seed"])
                    ts = its_ms(clock.now)
                    # seeds below 4 produce byte-identical objects (identical records must stay distinguishable by identifier)
                    obj = make_obj(op["type"], op["seed"] if op["seed"] < 4 else op["seed"] + step * 1000)
                    mono_before = lmr.time.monotonic() - ldm.ldm_maintenance.last_trash_collection_time
                    r = i3.add_provider_data(AddDataProviderReq(application_id=op["app"], timestamp=TimestampIts(ts), location=Location.location_builder_circle(lat, lon, 5, 0),
                                                                data_object=obj, time_validity=TimeValidity(op["validity"])))
                    if op["app"] in providers:
                        if r.data_object_id != next_id:
                            sig = "reused" if r.data_object_id in objs else ("refused" if r.data_object_id == -1 else "unexpected")
                            vs.append(violation(ID, "C12/add-identifier-%s" % sig, "step %d: add by registered provider %d returned id %r, expected fresh id %d" % (step, op["app"], r.data_object_id, next_id)))
                        reactive = mono_before >= 1.0
                        objs[next_id] = {"app": op["app"], "ts": ts, "lat": lat, "lon": lon, "obj": obj, "validity": op["validity"], "type": op["type"], "place": op["place"],
                                         "state": "alive", "added_at": clock.now, "gcs": [], "reactive_uncertain": True}
                        order.append(next_id)
                        next_id += 1
                        if reactive:
                            # a reactive maintenance pass ran inside this add
                            for o in objs.values():
                                if o["state"] == "alive":
                                    o["gcs"].append(its_ms(clock.now) / 1000.0)
                            gc_runs.append(clock.now)
                    else:
                        labels.add("refused")
                        if r.data_object_id != -1:
                            vs.append(violation(ID, "C12/add-by-unregistered-provider-accepted", "step %d: add by unregistered application %d returned id %r" % (step, op["app"], r.data_object_id)))
                            next_id = max(next_id, r.data_object_id + 1)
                elif k in ("update", "delete"):
                    target = order[op["ref"] % len(order)] if order and op["ref"] % 5 != 4 else 10_000 + op["ref"]
                    o = objs.get(target)
                    exists_now = o is not None and status(o, clock.now) in ("required", "optional", "optional-near")
                    certain = o is None or status(o, clock.now) in ("required", "gone")
                    registered = op["app"] in providers
                    if k == "delete":
                        r = i3.delete_provider_data(DeleteDataProviderReq(application_id=op["app"], data_object_id=target, time_stamp=TimestampIts(its_ms(clock.now))))
                        succeeded = r.result == DeleteDataProviderResult.SUCCEED
                        if not registered:
                            labels.add("refused")
                            if succeeded:
                                vs.append(violation(ID, "C12/delete-by-unregistered-provider-accepted", "step %d: delete of object %d by unregistered application %d succeeded" % (step, target, op["app"])))
                                if o:
                                    o["state"] = "deleted"
                        else:
                            if certain and succeeded != (o is not None and status(o, clock.now) == "required"):
                                vs.append(violation(ID, "C12/delete-result-wrong", "step %d: delete of %s object %d answered %s" % (step, "live" if exists_now else "absent", target, r.result)))
                            if succeeded and o:
                                o["state"] = "deleted"
                                labels.add("delete-existing")
                    else:
                        same = op["type"] == "same" or o is None
                        kind = (o["type"] if o else "cam") if same else ("vam" if (o and o["type"] != "vam") else "cam")
                        new_obj = make_obj(kind, op["seed"] + step * 1000 + 7)
                        r = i3.update_provider_data(UpdateDataProviderReq(application_id=op["app"], data_object_id=target, time_stamp=TimestampIts(its_ms(clock.now)),
                                                                          location=Location.location_builder_circle(1, 2, 3, 0), data_object=new_obj, time_validity=TimeValidity(99)))
                        succeeded = r.result == UpdateDataProviderResult.SUCCEED
                        if not registered:
                            labels.add("refused")
                            if succeeded:
                                vs.append(violation(ID, "C12/update-by-unregistered-provider-accepted", "step %d: update of object %d by unregistered application %d succeeded" % (step, target, op["app"])))
                                if o and same:
                                    o["obj"] = new_obj
                        else:
                            if certain:
                                want = UpdateDataProviderResult.UNKNOWN_DATA_OBJECT_ID if not exists_now else (UpdateDataProviderResult.SUCCEED if same else UpdateDataProviderResult.INCONSISTENT_DATA_OBJECT_TYPE)
                                if r.result != want:
                                    vs.append(violation(ID, "C12/update-result-wrong:%s" % want.name.lower(), "step %d: update of object %d (%s type) answered %s, expected %s" % (step, target, op["type"], r.result, want)))
                            if succeeded and o:
                                if same:
                                    o["obj"] = new_obj
                                    labels.add("update-existing")
                                else:
                                    o["obj"] = new_obj
                                    o["type"] = kind
                elif k == "request":
                    types = tuple(TYPES[t] for t in op["types"])
                    r = i4.request_data_objects(RequestDataObjectsReq(application_id=op["app"], data_object_type=types, priority=None, order=None, filter=None))
                    if op["app"] not in consumers:
                        labels.add("refused")
                        if r.result == RequestedDataObjectsResult.SUCCEED or r.data_objects:
                            vs.append(violation(ID, "C12/request-by-unregistered-consumer-answered", "step %d: request by unregistered application %d answered %s with %d objects" % (step, op["app"], r.result, len(r.data_objects))))
                    else:
                        if r.result != RequestedDataObjectsResult.SUCCEED:
                            vs.append(violation(ID, "C12/request-refused", "step %d: request by registered consumer %d answered %s" % (step, op["app"], r.result)))
                        got_types = []
                        for rec in r.data_objects:
                            t_ = next((t for t in TYPES if isinstance(rec, dict) and t in rec.get("dataObject", {})), None)
                            got_types.append(t_)
                        if any(t_ not in op["types"] for t_ in got_types):
                            vs.append(violation(ID, "C12/request-returns-other-types", "step %d: request for %r returned types %r" % (step, op["types"], sorted(set(map(str, got_types))))))
                        for i, o in objs.items():
                            if o["type"] in op["types"] and status(o, clock.now) == "required" and not any(isinstance(rec, dict) and rec.get("dataObject") == o["obj"] for rec in r.data_objects):
                                vs.append(violation(ID, "C12/request-misses-live-object", "step %d: request for %r does not return live object %d" % (step, op["types"], i)))
                        if labels & {"delete-existing", "update-existing"}:
                            mutated_then_query = True
            except Exception as e:
                vs.append(violation(ID, "C12/operation-raises:%s:%s" % (k, type(e).__name__), "step %d: %r raised %r" % (step, op, e)))
            try:
                read_back(step, desc)
            except Exception as e:
                vs.append(violation(ID, "C12/read-back-raises:%s" % type(e).__name__, "step %d: observer request after %r raised %r" % (step, op, e)))
            if any(v["signature"] not in SOFT for v in vs):
                break
        if any(o["state"] == "alive" and any(g > o["ts"] / 1000.0 + o["validity"] + 1 for g in o["gcs"]) for o in objs.values()):
            labels.add("expiry")
        nt = bool(labels & {"delete-existing", "update-existing", "expiry", "refused"})
        return Outcome(vs, labels=sorted(labels), nontrivial=nt)
    finally:
        clock.uninstall()


# violations after which the history can continue (the model resynchronises)
SOFT = {"C12/update-by-unregistered-provider-accepted", "C12/delete-by-unregistered-provider-accepted", "C12/object-at-ldm-position-collected"}


def job(n, seed, max_ops=120):
    return core.hyp_run(case_s(max_ops), run_case, n=n, seed=seed, kind="history")


def jobs(tier, seed):
    if tier == "quick":
        return [{"fn": "vf.props.c12:job", "args": {"n": 2500, "seed": seed * 1000 + s}} for s in range(16)]
    return [{"fn": "vf.props.c12:job", "args": {"n": 4000, "seed": seed * 1000 + s, "max_ops": 300}} for s in range(16)]


def replay(kind, case):
    return run_case(case)

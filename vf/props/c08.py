"""C08 - Location table reflects the newest valid information about each station.

History check: generated reception/clock histories on one real router (virtual clock), reference
model per source, compared through get_entry / get_neighbours after every event.  Ordering check:
pairs/triples of 32-bit timestamps against serial-number arithmetic."""
from __future__ import annotations

from hypothesis import strategies as st

from .. import core, refcodec as rc
from ..core import Outcome, Partial, violation

ID = "C08"
RULE = ("Histories of 1..80 events (receptions, clock advances, the station's own location-service lookups for the sources) on one station with a virtual clock placed (drawn) around the 2^32 ms timestamp wrap: receptions of "
        "beacon/SHB/TSB/GBC/GAC/GUC/LS-request/LS-reply built by the reference codec from 4 sources and the station's own address, "
        "position timestamps drawn relative to the receiver clock (-25 s..+3 s, exact equality and +-1 ms included), clock advances of "
        "0..3 lifetimes (itsGnLifetimeLocTE in {1,5,20} s). Oracle = reference model (newest PV by serial arithmetic, neighbour flag, "
        "expiry) checked via get_entry/get_neighbours after every event. Ordering: boundary-biased and uniform pairs/triples of "
        "timestamps. Non-trivial history = contains an older-after-newer timestamp, a timestamp ahead of the clock, a multi-hop packet "
        "after a beacon/SHB, or an expiry; non-trivial pair = distance within 2 of 0, 2^31 or 2^32.")
ASSUMPTIONS = [
    "no presence/absence verdict when |age - lifetime| <= 2 ms (float->ms conversion of the clock)",
    "expiry is only demanded after a later reception (the implementation purges on reception)",
    "sequence numbers are unique per source in this check (duplicates belong to C06)",
]

OWN = b"\x02\x00\x00\x00\x00\x01"
SRC = [b"\x02\x00\x00\x00\x10\x01", b"\x02\x00\x00\x00\x10\x02", b"\x02\x00\x00\x00\x10\x03", b"\x02\x00\x00\x00\x10\x04"]
KINDS = ["beacon", "shb", "tsb", "gbc", "gac", "guc", "guc_me", "lsreq", "lsreq_me", "lsrep", "lsrep_me"]
WRAP_N = 150  # the 150th wrap of the 32-bit ITS millisecond timestamp falls in 2024


def event_s():
    rx = st.fixed_dictionaries({
        "op": st.just("rx"),
        "kind": st.sampled_from(KINDS),
        "src": st.sampled_from([0, 0, 1, 1, 2, 3, -1]),
        "dt": st.one_of(st.sampled_from([0, 1, -1, 500, 999, 1000, -999, -1000, -1001, 2999, -19999, -20000, -20001]), st.integers(-25000, 3000)),
        "lat": st.integers(-900000000, 900000000), "lon": st.integers(-1800000000, 1800000000),
    })
    adv = st.fixed_dictionaries({"op": st.just("adv"), "ms": st.one_of(st.sampled_from([0, 1, 999, 1000, 1001, 4999, 5000, 5001, 19999, 20000, 20001]), st.integers(0, 60000))})
    # the station's own location-service lookup for one of the sources (leaves a pending placeholder entry until the reply arrives)
    lookup = st.fixed_dictionaries({"op": st.just("lookup"), "src": st.integers(0, 3)})
    return st.one_of(rx, rx, rx, rx, rx, rx, adv, adv, lookup)


def case_s():
    return st.fixed_dictionaries({
        "lifetime": st.sampled_from([1, 5, 20]),
        "before_wrap_ms": st.one_of(st.sampled_from([0, 1, 500, 1000, 5000, 20000, 30000]), st.integers(-10000, 120000), st.integers(0, 2**32 - 1)),
        "events": st.lists(event_s(), min_size=1, max_size=80),
    })


def sdiff(a, b):
    """Signed serial difference a-b in (-2^31, 2^31]."""
    d = (a - b) % (1 << 32)
    return d - (1 << 32) if d > (1 << 31) else d


def run_case(case):
    from flexstack.geonet import router as gr, location_table as ltm
    from flexstack.geonet.mib import AreaForwardingAlgorithm
    from ..stack import Station, addr_bytes, make_addr
    from ..vclock import VClock, ITS_EPOCH, LEAP, its_ms

    labels = set()
    wrap_utc = ITS_EPOCH - LEAP + (WRAP_N * (1 << 32)) / 1000.0
    start = wrap_utc - case["before_wrap_ms"] / 1000.0
    clock = VClock(start)
    clock.install([gr, ltm])
    vs = []
    try:
        station = Station(None, OWN, mib_kwargs=dict(itsGnLifetimeLocTE=case["lifetime"], itsGnAreaForwardingAlgorithm=AreaForwardingAlgorithm.SIMPLE))
        station.set_position(clock.now, 100000000, 100000000)
        table = station.gn.location_table
        life_ms = case["lifetime"] * 1000
        model = {}   # src index -> {"pv": (tst, lat, lon), "nb": bool}
        sn = [0, 0, 0, 0, 0]
        addrs = [make_addr(m) for m in SRC]
        own_addr = make_addr(OWN)
        for step, ev in enumerate(case["events"]):
            if ev["op"] == "adv":
                clock.advance(ev["ms"] / 1000.0)
                now_ms = its_ms(clock.now)
                for s_, m in model.items():
                    age_now = sdiff(now_ms, m["pv"][0])
                    e_ = table.get_entry(addrs[s_])
                    if age_now > life_ms + 2 and e_ is not None and getattr(e_, "position_vector_received", True) is not False:
                        vs.append(violation(ID, "C08/entry-visible-after-expiry-until-next-reception",
                                            "step %d: after a clock advance source %d is still returned by get_entry %d ms after its PV timestamp (lifetime %d ms)" % (step, s_, age_now, life_ms)))
                        break
                continue
            if ev["op"] == "lookup":
                try:
                    station.call(station.gn.gn_ls_request, addrs[ev["src"]], None)
                    labels.add("own-lookup")
                except Exception as e_:
                    vs.append(violation(ID, "C08/lookup-raises:%s" % type(e_).__name__, "step %d: gn_ls_request raised %r" % (step, e_)))
                    break
                continue
            now_ms = its_ms(clock.now)
            tst = (now_ms + ev["dt"]) % (1 << 32)
            src = ev["src"]
            mid = OWN if src < 0 else SRC[src]
            sn[src] = (sn[src] + 1) % 65536
            so = {"addr": addr_bytes(mid), "tst": tst, "lat": ev["lat"], "lon": ev["lon"], "pai": 1, "speed": 0, "heading": 0}
            kind = ev["kind"]
            me = {"addr": addr_bytes(OWN), "tst": 0, "lat": 100000000, "lon": 100000000}
            other = {"addr": addr_bytes(b"\x02\x00\x00\x00\x77\x77"), "tst": 0, "lat": 100000000, "lon": 100000000}
            area = {"lat": 100000000, "lon": 100000000, "a": 200, "b": 200, "angle": 0, "shape": 0}
            k = kind.split("_")[0]
            kw = dict(so=so, payload=b"\x07\xd1\x00\x00p", sn=sn[src], rhl=3, mhl=3, area=area)
            if k == "guc" or k == "lsrep":
                kw["de"] = me if kind.endswith("_me") else other
            if k == "lsreq":
                kw["req_addr"] = addr_bytes(OWN) if kind.endswith("_me") else other["addr"]
            if k in ("lsreq", "lsrep", "beacon"):
                kw["payload"] = b""
            if k in ("beacon", "shb"):
                kw["rhl"] = kw["mhl"] = 1
            pkt = rc.build_packet(k, **kw)
            err = station.receive(pkt)
            if err is not None:
                vs.append(violation(ID, "C08/reception-raises:%s:%s" % (k, type(err).__name__), "step %d: valid %s packet raised %r" % (step, kind, err)))
            processed = src >= 0 and err is None
            resync = False
            if processed:
                # ---- expiry before the packet is processed (entries that outlived their lifetime are gone)
                for s_, m in list(model.items()):
                    age = sdiff(now_ms, m["pv"][0])
                    if age > life_ms + 2:
                        del model[s_]
                        labels.add("expiry")
                    elif age >= life_ms - 2 and s_ == src:
                        resync = True
                # ---- model update
                m = model.get(src)
                if m is None:
                    m = model[src] = {"pv": (tst, ev["lat"], ev["lon"]), "nb": False}
                else:
                    d = sdiff(tst, m["pv"][0])
                    if d > 0:
                        m["pv"] = (tst, ev["lat"], ev["lon"])
                    else:
                        labels.add("older-or-equal-after-newer")
                if k in ("beacon", "shb"):
                    m["nb"] = True
                elif m["nb"]:
                    labels.add("multihop-after-singlehop")
                if ev["dt"] > 0:
                    labels.add("tst-ahead-of-clock")
                # ---- expiry after the packet was processed
                for s_, m in list(model.items()):
                    age = sdiff(now_ms, m["pv"][0])
                    if age > life_ms + 2:
                        del model[s_]
                        labels.add("expiry")
                    elif age >= life_ms - 2:
                        m["band"] = True
                    else:
                        m.pop("band", None)
                if resync and src in model:
                    e = table.get_entry(addrs[src])
                    if e is None:
                        del model[src]
                    else:
                        model[src]["nb"] = e.is_neighbour   # lifetime boundary within 2 ms: either outcome is accepted
                    labels.add("band-resync")
            # ---- compare
            if table.get_entry(own_addr) is not None:
                vs.append(violation(ID, "C08/own-address-entered", "step %d: own address present in location table after %s" % (step, kind)))
            nbs = {e.position_vector.gn_addr.mid.mid for e in table.get_neighbours()}
            for s_ in range(4):
                e = table.get_entry(addrs[s_])
                if e is not None and getattr(e, "position_vector_received", True) is False:
                    e = None            # the empty placeholder of an own lookup: no position vector of that source was received
                m = model.get(s_)
                if m is None:
                    # absent in the model: either never seen, or expired (band cases were kept)
                    if e is not None and not _in_band_absent(e, now_ms, life_ms):
                        vs.append(violation(ID, "C08/entry-not-expired", "step %d: source %d still present, PV tst age %d ms > lifetime %d ms" % (
                            step, s_, sdiff(now_ms, e.position_vector.tst.msec), life_ms)))
                    continue
                age_now = sdiff(now_ms, m["pv"][0])
                if age_now > life_ms + 2:
                    # expired by time, but no reception has been processed since: the implementation purges lazily
                    if e is not None:
                        vs.append(violation(ID, "C08/entry-visible-after-expiry-until-next-reception",
                                            "step %d: source %d still returned by get_entry %d ms after its PV timestamp (lifetime %d ms); no reception processed since" % (step, s_, age_now, life_ms)))
                    continue
                if m.get("band") or abs(age_now - life_ms) <= 2:
                    if e is None:
                        del model[s_]
                    continue
                if e is None:
                    vs.append(violation(ID, "C08/entry-missing-within-lifetime:%s" % ("tst-ahead" if sdiff(now_ms, m["pv"][0]) < 0 else "tst-behind"),
                                        "step %d (%s from %d, dt %d ms): source %d absent although its newest PV is %d ms old (lifetime %d ms)" % (
                                            step, kind, src, ev["dt"], s_, sdiff(now_ms, m["pv"][0]), life_ms)))
                    continue
                pv = e.position_vector
                got = (pv.tst.msec, pv.latitude, pv.longitude)
                if got != m["pv"]:
                    vs.append(violation(ID, "C08/pv-not-newest:%s" % ("stored-older" if sdiff(m["pv"][0], got[0]) > 0 else "stored-other"),
                                        "step %d: source %d stores PV %r, newest received is %r" % (step, s_, got, m["pv"])))
                if e.is_neighbour != m["nb"]:
                    vs.append(violation(ID, "C08/neighbour-flag:%s" % ("lost" if m["nb"] else "spurious"), "step %d (%s): source %d is_neighbour=%r, model %r" % (
                        step, kind, s_, e.is_neighbour, m["nb"])))
                if (SRC[s_] in nbs) != m["nb"]:
                    vs.append(violation(ID, "C08/get-neighbours-disagrees", "step %d: get_neighbours() %s source %d, model neighbour=%r" % (
                        step, "contains" if SRC[s_] in nbs else "lacks", s_, m["nb"])))
            if any(v["signature"] != "C08/entry-visible-after-expiry-until-next-reception" for v in vs):
                break
        nontrivial = bool(labels)
        return Outcome(vs, labels=sorted(labels), nontrivial=nontrivial)
    finally:
        clock.uninstall()


def _in_band_absent(e, now_ms, life_ms):
    age = sdiff(now_ms, e.position_vector.tst.msec)
    return age <= life_ms + 2


def job_histories(n, seed):
    return core.hyp_run(case_s(), run_case, n=n, seed=seed, kind="history")


# ---- ordering ----------------------------------------------------------------------------------
BOUND = [0, 1, 2, (1 << 31) - 2, (1 << 31) - 1, 1 << 31, (1 << 31) + 1, (1 << 31) + 2, (1 << 32) - 2, (1 << 32) - 1]


def check_pair(a, b):
    from flexstack.geonet.position_vector import TST
    A, Bb = TST(msec=a), TST(msec=b)
    d = (a - b) % (1 << 32)
    vs = []
    gt, lt_, ge, le, eq = A > Bb, A < Bb, A >= Bb, A <= Bb, A == Bb
    rgt = Bb > A
    if a == b and (gt or lt_ or not ge or not le or not eq):
        vs.append(violation(ID, "C08/order-not-irreflexive", "a=b=%d: gt=%r lt=%r ge=%r le=%r eq=%r" % (a, gt, lt_, ge, le, eq)))
    if gt and rgt:
        vs.append(violation(ID, "C08/order-not-antisymmetric", "a=%d b=%d: a>b and b>a" % (a, b)))
    if 0 < d < (1 << 31) and not gt:
        vs.append(violation(ID, "C08/order-disagrees-with-real-time", "a=%d b=%d (a-b mod 2^32 = %d < 2^31) but a>b is False" % (a, b, d)))
    if d > (1 << 31) and gt:
        vs.append(violation(ID, "C08/order-disagrees-with-real-time", "a=%d b=%d (b-a mod 2^32 = %d < 2^31) but a>b is True" % (a, b, (b - a) % (1 << 32))))
    if ge != (gt or eq) or le != (not gt) or lt_ != (not ge):
        vs.append(violation(ID, "C08/order-operators-inconsistent", "a=%d b=%d: gt=%r ge=%r lt=%r le=%r eq=%r" % (a, b, gt, ge, lt_, le, eq)))
    if d != (1 << 31) and a != b and (lt_ != rgt):
        vs.append(violation(ID, "C08/order-lt-not-converse-of-gt", "a=%d b=%d: a<b=%r b>a=%r" % (a, b, lt_, rgt)))
    if (A - Bb) != d:
        vs.append(violation(ID, "C08/tst-subtraction-wrong", "a=%d b=%d: a-b=%r expected %d" % (a, b, A - Bb, d)))
    return vs


def check_triple(a, b, c):
    from flexstack.geonet.position_vector import TST
    A, Bb, C = TST(msec=a), TST(msec=b), TST(msec=c)
    if A > Bb and Bb > C and not (A > C):
        return [violation(ID, "C08/order-not-transitive", "a=%d > b=%d > c=%d (span < 2^31) but not a>c" % (a, b, c))]
    return []


def pair_s():
    base = st.integers(0, (1 << 32) - 1)
    off = st.one_of(st.sampled_from(BOUND), st.integers(0, (1 << 32) - 1), st.integers(0, 30000))
    return st.tuples(base, off).map(lambda t: {"a": (t[0] + t[1]) % (1 << 32), "b": t[0]})


def triple_s():
    base = st.integers(0, (1 << 32) - 1)
    d = st.one_of(st.sampled_from([1, 2, (1 << 30), (1 << 30) - 1, (1 << 31) - 2]), st.integers(1, (1 << 31) - 2))
    return st.tuples(base, d, d).filter(lambda t: t[1] + t[2] < (1 << 31)).map(
        lambda t: {"c": t[0], "b": (t[0] + t[1]) % (1 << 32), "a": (t[0] + t[1] + t[2]) % (1 << 32)})


def run_pair(case):
    d = (case["a"] - case["b"]) % (1 << 32)
    near = min(d, abs(d - (1 << 31)), (1 << 32) - d) <= 2
    return Outcome(check_pair(case["a"], case["b"]), labels=["pair:near-boundary" if near else "pair:generic"], nontrivial=near)


def run_triple(case):
    return Outcome(check_triple(case["a"], case["b"], case["c"]), labels=["triple"], nontrivial=(case["a"] < case["c"]))


def job_pairs(n, seed):
    part = core.hyp_run(pair_s(), run_pair, n=n, seed=seed, kind="pair")
    # deterministic boundary grid: every base in a small set x every boundary offset, both orders
    bases = [0, 1, (1 << 31) - 1, 1 << 31, (1 << 32) - 1, 0x12345678, 0xFFFFFF00]
    for b in bases:
        for off in BOUND:
            for (x, y) in (((b + off) % (1 << 32), b), (b, (b + off) % (1 << 32))):
                part.record({"a": x, "b": y}, run_pair({"a": x, "b": y}), kind="pair")
    return part


def job_triples(n, seed):
    return core.hyp_run(triple_s(), run_triple, n=n, seed=seed, kind="triple")


def jobs(tier, seed):
    k = 1 if tier == "quick" else 12
    js = []
    for s in range(12):
        js.append({"fn": "vf.props.c08:job_histories", "args": {"n": 1200 * k, "seed": seed * 1000 + s}})
    for s in range(2):
        js.append({"fn": "vf.props.c08:job_pairs", "args": {"n": 60000 * k, "seed": seed * 1000 + 50 + s}})
        js.append({"fn": "vf.props.c08:job_triples", "args": {"n": 30000 * k, "seed": seed * 1000 + 60 + s}})
    return js


def replay(kind, case):
    if kind == "history":
        return run_case(case)
    if kind == "pair":
        return run_pair(case)
    if kind == "triple":
        return run_triple(case)
    raise ValueError(kind)

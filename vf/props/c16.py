"""C16 - LDM operations are atomic under concurrent providers, consumers and maintenance.

Owned scheduler as in C15 (preemption points inside the LDM modules); oracle = linearizability of
the recorded call history against a sequential reference store (exhaustive search over the orders
consistent with per-actor order and real-time precedence), plus interval checks for queries and
notifications, unique identifiers, no failing or deadlocked thread."""
from __future__ import annotations

import types

from hypothesis import strategies as st

from .. import core, sched as sch
from ..core import Outcome, Partial, violation

ID = "C16"
RULE = ("A case = scenario (2..4 actors x 1..4 IF.LDM.3 / IF.LDM.4 calls from add, update, delete, request, register / deregister provider and "
        "consumer, subscribe, unsubscribe, plus maintenance passes (collect_trash) and attendance passes (attend_subscriptions) as actors' operations, on "
        "the in-memory back-end with the reactive service / maintenance classes, two objects pre-loaded) + schedule (which runnable actor "
        "continues at each preemption point: opcode events in dictionary_database.py, ldm_service*.py, ldm_maintenance*.py, if_ldm_3/4.py "
        "and lock operations). Quick: hypothesis schedules (sparse priority changes and dense) over drawn scenarios plus every "
        "single-preemption schedule of 12 fixed scenarios; thorough: 22 fixed scenarios and many more random ones. Oracle: the per-actor "
        "responses and the final store / registries must equal those of some sequential order of the same calls respecting real-time "
        "precedence (exhaustive memoised search); identifiers unique; a query or notification returns only objects present at some instant "
        "of the call and all objects present throughout; no actor raises; no deadlock. Non-trivial = schedule with a context switch inside "
        "an LDM module while >= 2 actors have operations in flight.")
ASSUMPTIONS = [
    "the sequential specification is the C12 reference map (objects stay valid: the clock does not advance, so expiry plays no role here)",
    "update / delete are not gated by registration in the sequential specification (recorded C12 findings), so that C16 judges atomicity only",
    "single bytecodes atomic (GIL); bounded scenarios and preemption bound: finds races, cannot prove their absence",
]

TYPES = {"cam": 2, "vam": 16}
OPS = ["add_cam", "add_vam", "update0", "update1", "update_own", "delete0", "delete1", "delete_own", "request_all", "request_cam", "reg_p16", "dereg_p16", "reg_c16", "dereg_c16",
       "reg_p3", "reg_c3", "subscribe", "subscribe16", "unsub0", "unsub_sub", "gc", "attend"]


def mk_obj(kind, tag):
    return {"header": {"stationId": tag}, kind: {"v": tag}}


def build_world(s, pre16=False):
    from flexstack.facilities.local_dynamic_map import dictionary_database as dd, ldm_service as ls, ldm_service_reactive as lsr, ldm_maintenance as lm, ldm_maintenance_reactive as lmr
    from flexstack.facilities.local_dynamic_map.factory import LDMFactory
    from flexstack.facilities.local_dynamic_map.ldm_classes import (AccessPermission, AddDataProviderReq, Circle, GeometricArea, Location, RegisterDataConsumerReq, RegisterDataProviderReq,
                                                                    TimestampIts, TimeValidity)
    from ..vclock import VClock, its_ms
    clock = VClock(1_700_000_000.0)
    clock.install([lm, lmr, lsr])
    L, R = sch.lock_factories(s)
    clock._set(dd, "RLock", R)
    for mod in (ls, lsr, lmr):
        shim = clock.threading_shim()
        shim.Lock, shim.RLock = L, R
        clock._set(mod, "threading", shim)
    ldm = LDMFactory().create_ldm(Location.initializer(latitude=413000000, longitude=21000000), "Reactive", "Reactive", "Dictionary")
    for app in (2,):
        ldm.if_ldm_3.register_data_provider(RegisterDataProviderReq(application_id=app, access_permissions=(AccessPermission(app),), time_validity=TimeValidity(100)))
    ldm.if_ldm_4.register_data_consumer(RegisterDataConsumerReq(application_id=2, access_permisions=(AccessPermission.CAM,), area_of_interest=GeometricArea(Circle(1000), None, None)))
    ts = its_ms(clock.now)

    def add_req(app, obj, i):
        return AddDataProviderReq(application_id=app, timestamp=TimestampIts(ts + i), location=Location.location_builder_circle(413100000 + i, 21100000, 5000, 0), data_object=obj, time_validity=TimeValidity(100000))
    pre = []
    for i, (kind, tag) in enumerate((("cam", 900), ("vam", 901))):
        r = ldm.if_ldm_3.add_provider_data(add_req(2, mk_obj(kind, tag), i))
        pre.append((r.data_object_id, mk_obj(kind, tag)))
    from flexstack.facilities.local_dynamic_map.ldm_classes import SubscribeDataobjectsReq
    notifications = []
    req0 = SubscribeDataobjectsReq(application_id=2, data_object_type=(2,), notify_time=TimestampIts(0), multiplicity=1)
    req_sub = SubscribeDataobjectsReq(application_id=2, data_object_type=(2, 16), notify_time=TimestampIts(0), multiplicity=0)
    req_sub16 = SubscribeDataobjectsReq(application_id=16, data_object_type=(16,), notify_time=TimestampIts(0), multiplicity=0)
    if pre16:
        ldm.if_ldm_3.register_data_provider(RegisterDataProviderReq(application_id=16, access_permissions=(AccessPermission.VAM,), time_validity=TimeValidity(100)))
        ldm.if_ldm_4.register_data_consumer(RegisterDataConsumerReq(application_id=16, access_permisions=(AccessPermission.VAM,), area_of_interest=GeometricArea(Circle(1000), None, None)))
    r0 = ldm.if_ldm_4.subscribe_data_consumer(req0, lambda resp: notifications.append((s.point, tuple(sorted(core.jdump(x.get("dataObject")) for x in resp.data_objects)))))
    return {"clock": clock, "ldm": ldm, "add_req": add_req, "pre": pre, "ts": ts, "notifications": notifications, "req_sub": req_sub, "req_sub16": req_sub16,
            "sub_ids": {"S0": r0.subscription_id, "SUB": hash(req_sub), "SUB16": hash(req_sub16)}}


class Model:
    """Sequential reference LDM (content only)."""

    lenient_add = False     # second pass only: an add may succeed although its provider deregistered while the call was in flight

    def __init__(self, pre, pre16=False):
        self.objs = {i: o for i, o in pre}
        self.next_id = max(self.objs) + 1 if self.objs else 0
        self.providers = {2, 16} if pre16 else {2}
        self.consumers = {2, 16} if pre16 else {2}
        self.subs = {"S0": 1, "SUB": 0, "SUB16": 0}      # live subscriptions per request (identical requests share the identifier)

    def key(self):
        return (tuple(sorted((i, core.jdump(o)) for i, o in self.objs.items())), self.next_id, tuple(sorted(self.providers)), tuple(sorted(self.consumers)),
                (self.subs["S0"], self.subs["SUB"], self.subs["SUB16"]))

    def copy(self):
        m = Model([])
        m.objs, m.next_id, m.providers, m.consumers, m.subs = dict(self.objs), self.next_id, set(self.providers), set(self.consumers), dict(self.subs)
        m.lenient_add = self.lenient_add
        return m

    def apply(self, call, want=None):
        k = call[0]
        if k == "add":
            _, app, obj = call
            if app not in self.providers and not (self.lenient_add and want is not None and isinstance(want, int) and want >= 0):
                return -1
            i = self.next_id
            self.next_id += 1
            self.objs[i] = obj
            return i
        if k == "update":
            _, oid, obj = call
            if oid not in self.objs:
                return 1
            kind_old = next(t for t in TYPES if t in self.objs[oid])
            kind_new = next(t for t in TYPES if t in obj)
            if kind_old != kind_new:
                return 2
            self.objs[oid] = obj
            return 0
        if k == "delete":
            if call[1] in self.objs:
                del self.objs[call[1]]
                return 0
            return 1
        if k == "request":
            _, app, types = call
            if app not in self.consumers:
                return "invalid"
            return tuple(sorted(core.jdump(o) for o in self.objs.values() if any(t in o for t in types)))
        if k == "reg_p":
            self.providers.add(call[1])
            return 0
        if k == "dereg_p":
            ok = call[1] in self.providers
            self.providers.discard(call[1])
            return 0 if ok else 1
        if k == "reg_c":
            self.consumers.add(call[1])
            return 0
        if k == "dereg_c":
            ok = call[1] in self.consumers
            self.consumers.discard(call[1])
            if call[1] == 16:
                self.subs["SUB16"] = 0          # the consumer's subscriptions end with its registration
            return 0 if ok else 1
        if k == "subscribe":
            if call[1] not in self.consumers:
                return 1
            self.subs["SUB" if call[1] == 2 else "SUB16"] += 1
            return 0
        if k == "unsub":
            if 2 not in self.consumers or self.subs[call[1]] == 0:
                return 1
            self.subs[call[1]] = 0
            return 0
        return None      # gc, attend


def linearizable(history, pre, final_key, pre16=False, lenient_add=False):
    """history: list of dict(actor, idx, start, end, call, result).  Memoised DFS."""
    n_act = max(h["actor"] for h in history) + 1 if history else 0
    for h in history:
        # the liberty of the second pass applies only to an add whose provider is deregistered by a call overlapping it in time
        h["dereg_overlaps"] = h["call"][0] == "add" and any(o["call"] == ("dereg_p", h["call"][1]) and o["start"] < h["end"] and h["start"] < o["end"] for o in history)
    per = [[h for h in history if h["actor"] == a] for a in range(n_act)]
    seen = set()

    def dfs(pos, model):
        k = (pos, model.key())
        if k in seen:
            return False
        seen.add(k)
        if all(pos[a] == len(per[a]) for a in range(n_act)):
            return model.key() == final_key
        # earliest end among unplaced ops: an op may be next only if it started before every unplaced op ended
        unplaced = [per[a][pos[a]:] for a in range(n_act)]
        min_end = min((h["end"] for lst in unplaced for h in lst), default=None)
        for a in range(n_act):
            if pos[a] == len(per[a]):
                continue
            h = per[a][pos[a]]
            if h["start"] > min_end:
                continue
            m2 = model.copy()
            res = m2.apply(h["call"], h["result"] if h.get("dereg_overlaps") else None)
            if h["call"][0] in ("gc", "attend") or res == h["result"]:
                np = tuple(p + 1 if i == a else p for i, p in enumerate(pos))
                if dfs(np, m2):
                    return True
        return False
    m0 = Model(pre, pre16)
    m0.lenient_add = lenient_add
    return dfs(tuple(0 for _ in range(n_act)), m0)


_WARM = [False]


def run_schedule(case):
    if not _WARM[0]:
        _WARM[0] = True
        for _ in range(2):
            _run_schedule({"actors": [list(OPS), ["add_cam", "delete_own", "update0", "request_all", "attend", "gc"]], "schedule": [0, 0, 1, 0, 0, 0, 1, 0, 1]})
    return _run_schedule(case)


def _run_schedule(case):
    from flexstack.facilities.local_dynamic_map import (dictionary_database as dd, ldm_service as ls, ldm_service_reactive as lsr, ldm_maintenance as lm, ldm_maintenance_reactive as lmr,
                                                        if_ldm_3 as i3m, if_ldm_4 as i4m)
    from flexstack.facilities.local_dynamic_map.ldm_classes import (AccessPermission, Circle, DeleteDataProviderReq, DeregisterDataConsumerReq, DeregisterDataProviderReq, GeometricArea,
                                                                    RegisterDataConsumerReq, RegisterDataProviderReq, RequestDataObjectsReq, RequestedDataObjectsResult,
                                                                    SubscribeDataobjectsReq, TimestampIts, TimeValidity, UnsubscribeDataConsumerReq, UpdateDataProviderReq, Location)
    files = {m.__file__ for m in (dd, ls, lsr, lm, lmr, i3m, i4m)}
    s = sch.Scheduler(files, case["schedule"], max_points=60000)
    w = build_world(s, bool(case.get("pre16")))
    ldm, clock = w["ldm"], w["clock"]
    i3, i4 = ldm.if_ldm_3, ldm.if_ldm_4
    vs = []
    history = []
    notifications = w["notifications"]     # (point, set of canonical objects)
    try:
        area = GeometricArea(Circle(1000), None, None)

        def make_actor(ai, ops):
            def body():
                own_ids = []
                own_kinds = []
                for oi, op in enumerate(ops):
                    tag = 100 * (ai + 1) + oi
                    start = s.point
                    call = result = None
                    if op in ("add_cam", "add_vam"):
                        kind = op[4:]
                        app = 2 if kind == "cam" else 16
                        obj = mk_obj(kind, tag)
                        call = ("add", app, obj)
                        result = i3.add_provider_data(w["add_req"](app, obj, tag)).data_object_id
                        if isinstance(result, int) and result >= 0:
                            own_ids.append(result)
                            own_kinds.append(kind)
                    elif op.startswith("update"):
                        oid = own_ids[-1] if (op == "update_own" and own_ids) else (w["pre"][1][0] if op == "update1" else w["pre"][0][0])
                        kind = "vam" if (op == "update1") else "cam"
                        if op == "update_own" and own_ids:
                            kind = own_kinds[-1]
                        obj = mk_obj(kind, tag)
                        call = ("update", oid, obj)
                        result = int(i3.update_provider_data(UpdateDataProviderReq(application_id=2, data_object_id=oid, time_stamp=TimestampIts(w["ts"]), location=Location.location_builder_circle(1, 2, 3, 0),
                                                                                   data_object=obj, time_validity=TimeValidity(5))).result)
                    elif op.startswith("delete"):
                        oid = own_ids[-1] if (op == "delete_own" and own_ids) else (w["pre"][1][0] if op == "delete1" else w["pre"][0][0])
                        call = ("delete", oid)
                        result = int(i3.delete_provider_data(DeleteDataProviderReq(application_id=2, data_object_id=oid, time_stamp=TimestampIts(w["ts"]))).result)
                    elif op.startswith("request"):
                        types = ("cam", "vam") if op == "request_all" else ("cam",)
                        call = ("request", 2, types)
                        r = i4.request_data_objects(RequestDataObjectsReq(application_id=2, data_object_type=tuple(TYPES[t] for t in types), priority=None, order=None, filter=None))
                        result = "invalid" if r.result != RequestedDataObjectsResult.SUCCEED else tuple(sorted(core.jdump(x.get("dataObject") if isinstance(x, dict) else x) for x in r.data_objects))
                    elif op == "reg_p16":
                        call = ("reg_p", 16)
                        result = int(i3.register_data_provider(RegisterDataProviderReq(application_id=16, access_permissions=(AccessPermission.VAM,), time_validity=TimeValidity(100))).result)
                    elif op == "reg_p3":
                        call = ("reg_p", 3)
                        result = int(i3.register_data_provider(RegisterDataProviderReq(application_id=3, access_permissions=(AccessPermission.POI,), time_validity=TimeValidity(100))).result)
                    elif op == "reg_c3":
                        call = ("reg_c", 3)
                        result = int(i4.register_data_consumer(RegisterDataConsumerReq(application_id=3, access_permisions=(AccessPermission.POI,), area_of_interest=area)).result)
                    elif op == "dereg_p16":
                        call = ("dereg_p", 16)
                        result = int(i3.deregister_data_provider(DeregisterDataProviderReq(application_id=16)).result)
                    elif op == "reg_c16":
                        call = ("reg_c", 16)
                        result = int(i4.register_data_consumer(RegisterDataConsumerReq(application_id=16, access_permisions=(AccessPermission.VAM,), area_of_interest=area)).result)
                    elif op == "dereg_c16":
                        call = ("dereg_c", 16)
                        result = int(i4.deregister_data_consumer(DeregisterDataConsumerReq(application_id=16)).ack)
                    elif op == "subscribe":
                        call = ("subscribe", 2)
                        r = i4.subscribe_data_consumer(w["req_sub"],
                                                       lambda resp: notifications.append((s.point, tuple(sorted(core.jdump(x.get("dataObject")) for x in resp.data_objects)))))
                        result = 0 if int(r.result) == 0 else 1
                    elif op == "subscribe16":
                        call = ("subscribe", 16)
                        r = i4.subscribe_data_consumer(w["req_sub16"], lambda resp: None)
                        result = 0 if int(r.result) == 0 else 1
                    elif op in ("unsub0", "unsub_sub"):
                        tok = "S0" if op == "unsub0" else "SUB"
                        call = ("unsub", tok)
                        result = int(i4.unsubscribe_data_consumer(UnsubscribeDataConsumerReq(application_id=2, subscription_id=w["sub_ids"][tok])).result)
                    elif op == "gc":
                        call = ("gc",)
                        ldm.ldm_maintenance.collect_trash()
                    elif op == "attend":
                        call = ("attend",)
                        ldm.ldm_service.attend_subscriptions()
                    history.append({"actor": ai, "idx": oi, "start": start, "end": s.point, "call": call, "result": result, "op": op})
            return body
        for ai, ops in enumerate(case["actors"]):
            s.spawn("A%d" % ai, make_actor(ai, ops))
        try:
            s.run()
        except RuntimeError:
            # real-time watchdog of the harness (slow machine): a time budget hit is inconclusive, never a violation; livelocks are
            # caught logically by the preemption-point bound, deadlocks by the scheduler
            out = Outcome([], labels=["watchdog-inconclusive"], nontrivial=False, excluded=["real-time watchdog hit (inconclusive)"])
            out.points = s.point
            return out
        if s.deadlock:
            vs.append(violation(ID, "C16/deadlock", "no runnable actor: %r" % (s.deadlock,)))
        elif s.aborted and not vs:
            vs.append(violation(ID, "C16/step-bound-exceeded", "actors did not finish within %d preemption points" % s.max_points))
        failed = False
        for a in s.actors:
            if a.error is not None:
                failed = True
                vs.append(violation(ID, "C16/operation-raises:%s" % type(a.error).__name__, "actor %s raised %r" % (a.name, a.error)))
        if not vs:
            # identifiers
            ids = [h["result"] for h in history if h["call"][0] == "add" and isinstance(h["result"], int) and h["result"] >= 0]
            if len(ids) != len(set(ids)) or any(i in (p[0] for p in w["pre"]) for i in ids):
                vs.append(violation(ID, "C16/identifier-not-unique", "identifiers returned by adds: %r (pre-loaded: %r)" % (ids, [p[0] for p in w["pre"]])))
            db = ldm.ldm_maintenance.data_containers
            final_objs = {}
            corrupt = False
            for i, rec in db.database.items():
                if not isinstance(rec, dict) or "dataObject" not in rec:
                    corrupt = True
                    vs.append(violation(ID, "C16/stored-record-corrupted", "record %r lost its envelope: %r" % (i, str(rec)[:150])))
                else:
                    final_objs[i] = rec["dataObject"]
            if not corrupt:
                final_key = (tuple(sorted((i, core.jdump(o)) for i, o in final_objs.items())), max([p[0] for p in w["pre"]] + ids) + 1,
                             tuple(sorted(ldm.ldm_service.get_data_provider_its_aid())), tuple(sorted(ldm.ldm_service.get_data_consumer_its_aid())),
                             tuple(sum(1 for x in ldm.ldm_service.subscriptions if hash(x.subscription_request) == w["sub_ids"][t]) for t in ("S0", "SUB", "SUB16")))
                if not linearizable(history, w["pre"], final_key, bool(case.get("pre16"))):
                    kinds = sorted({h["call"][0] for h in history if h["call"][0] not in ("gc", "attend", "request")})
                    if linearizable(history, w["pre"], final_key, bool(case.get("pre16")), lenient_add=True):
                        # the only thing no sequential order explains: an add that passed the registration check, lost its provider to a
                        # concurrent deregistration, and stored its object afterwards
                        sig = "C16/add-stored-after-concurrent-provider-deregistration"
                    else:
                        sig = "C16/not-linearizable:%s" % "+".join(kinds)
                    vs.append(violation(ID, sig, "no sequential order of the calls explains the responses and the final state; history: %s; final objects %r providers %r consumers %r" % (
                        [(h["actor"], h["op"], h["start"], h["end"], h["result"] if not isinstance(h["result"], tuple) else len(h["result"])) for h in history], sorted(final_objs), sorted(ldm.ldm_service.get_data_provider_its_aid()),
                        sorted(ldm.ldm_service.get_data_consumer_its_aid()))))
        inflight = any(a["start"] < b["end"] and b["start"] < a["end"] for i, a in enumerate(history) for b in history[i + 1:] if a["actor"] != b["actor"])
        labels = ["switches:%s" % ("0" if s.switches == 0 else ("1" if s.switches == 1 else "2+")), "overlap:%s" % inflight]
        out = Outcome(vs, labels=labels, nontrivial=s.switches > 0 and inflight)
        out.points = s.point
        return out
    finally:
        clock.uninstall()


def scenario_s():
    ops = st.sampled_from(OPS + ["add_cam", "delete0", "update0", "delete_own", "update_own", "request_all"])
    return st.fixed_dictionaries({"pre16": st.booleans(), "actors": st.lists(st.lists(ops, min_size=1, max_size=4), min_size=2, max_size=4)})


def schedule_s():
    sparse = st.tuples(st.integers(0, 3), st.lists(st.tuples(st.integers(1, 250) | st.integers(1, 1200), st.integers(1, 3)), min_size=1, max_size=4)).map(
        lambda t: _sparse(t[1] + [(0, t[0])]))      # decision 0 picks the actor that starts
    dense = st.lists(st.sampled_from([0, 0, 0, 0, 0, 0, 0, 1, 2]), min_size=10, max_size=600)
    return st.one_of(sparse, sparse, dense)


def _sparse(changes):
    n = max(p for p, _ in changes) + 1
    out = [0] * n
    for p, k in changes:
        out[p] = k
    return out


def case_s():
    return st.tuples(scenario_s(), schedule_s()).map(lambda t: dict(t[0], schedule=t[1]))


def job_random(n, seed):
    return core.hyp_run(case_s(), run_schedule, n=n, seed=seed, kind="schedule")


FIXED = [
    {"actors": [["update0"], ["delete0"]]},
    {"actors": [["delete0"], ["delete0"]]},
    {"actors": [["add_cam", "delete_own"], ["add_cam", "request_all"]]},
    {"actors": [["add_cam"], ["gc"], ["request_all"]]},
    {"actors": [["update0", "update0"], ["update0"], ["request_cam"]]},
    {"actors": [["reg_p16", "add_vam"], ["dereg_p16"], ["reg_p16"]]},
    {"actors": [["subscribe", "attend"], ["add_cam"], ["dereg_c16", "reg_c16"]]},
    {"actors": [["add_cam", "add_cam"], ["add_vam", "add_cam"], ["delete1"]]},
    {"actors": [["delete_own", "add_cam"], ["add_cam", "delete_own"], ["attend"]]},
    {"actors": [["update1"], ["delete1"], ["request_all"], ["gc"]]},
    {"actors": [["reg_c16", "dereg_c16"], ["reg_c16"], ["dereg_c16"]]},
    {"actors": [["add_cam", "update_own", "delete_own"], ["request_all", "request_all"]]},
    {"actors": [["request_all"], ["delete0"], ["delete1"]]},
    {"actors": [["reg_p16", "reg_c16"], ["reg_p3", "reg_c3"]]},
    {"actors": [["gc"], ["delete0"], ["add_cam"]]},
    {"actors": [["unsub0"], ["unsub0"]]},
    {"actors": [["subscribe", "unsub_sub"], ["unsub_sub", "subscribe"], ["attend"]]},
    {"actors": [["unsub0"], ["attend"], ["add_cam"]]},
    {"pre16": True, "actors": [["dereg_c16"], ["reg_c16", "subscribe16"]]},
    {"pre16": True, "actors": [["subscribe16", "dereg_c16"], ["reg_c16", "subscribe16"], ["attend"]]},
    {"pre16": True, "actors": [["dereg_p16"], ["dereg_p16"]]},
    {"pre16": True, "actors": [["dereg_c16"], ["dereg_c16"], ["add_vam"]]},
]


def job_systematic(scenario_i, shard, nshards):
    part = Partial()
    sc = FIXED[scenario_i]
    n_act = len(sc["actors"])
    i = 0
    tot_points = 0
    # decision 0 chooses the actor that starts; then exactly one preemption at point p >= 1 (every actor gets to be the preempted one)
    for start in range(n_act):
        base = run_schedule(dict(sc, schedule=[start]))
        part.record(dict(sc, schedule=[start]), base, kind="schedule")
        n_points = getattr(base, "points", 0)
        tot_points += n_points
        for p in range(1, n_points):
            for k in range(1, n_act):
                if i % nshards == shard:
                    case = dict(sc, schedule=[start] + [0] * (p - 1) + [k])
                    out = run_schedule(case)
                    part.record({"scenario": scenario_i, "start": start, "preempt_at": p, "to": k}, out, kind="systematic", hash_case=False, sample_cap=1)
                    for v in out.violations:
                        v["case"] = case
                        v["kind"] = "schedule"
                i += 1
    part.subcount("systematic-single-preemption:scenario%d" % scenario_i, points=tot_points if shard == 0 else 0, schedules=i // nshards, exhaustive_single_preemption=True)
    return part


def jobs(tier, seed):
    js = []
    if tier == "quick":
        for s in range(10):
            js.append({"fn": "vf.props.c16:job_random", "args": {"n": 250, "seed": seed * 1000 + s}})
        for sc in (0, 1, 2, 3, 12, 13, 14, 15, 17, 18, 20, 21):
            js.append({"fn": "vf.props.c16:job_systematic", "args": {"scenario_i": sc, "shard": 0, "nshards": 1}})
    else:
        for s in range(16):
            js.append({"fn": "vf.props.c16:job_random", "args": {"n": 5000, "seed": seed * 1000 + s}})
        for sc in range(len(FIXED)):
            for sh in range(2):
                js.append({"fn": "vf.props.c16:job_systematic", "args": {"scenario_i": sc, "shard": sh, "nshards": 2}})
    return js


def replay(kind, case):
    return run_schedule(case)

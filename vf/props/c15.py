"""C15 - GeoNetworking router is safe under concurrent origination, reception and timers.

Schedules are the generated input: real threads, serialised by vf/sched.py at bytecode-instruction
granularity inside geonet/router.py and geonet/location_table.py, with cooperative locks and virtual
timers whose expiry is an actor."""
from __future__ import annotations

from hypothesis import strategies as st

from .. import core, refcodec as rc, sched as sch
from ..core import Outcome, Partial, violation

ID = "C15"
RULE = ("A case = scenario (2..4 actors x 1..3 operations from: originate GBC / GUC to a known destination / GUC to a destination whose "
        "location-service lookup is pending / SHB; deliver a received frame - a new GBC that gets CBF-buffered, the duplicate of a buffered "
        "GBC, the LS reply for the pending destination, a beacon; refresh the ego position vector; fire a due CBF or LS timer the way "
        "threading.Timer.run does) + schedule (which runnable actor continues at each of the ~10^2..10^3 preemption points: opcode events at "
        "attribute/subscript accesses, membership tests and calls in router.py and location_table.py, and lock operations). Quick: hypothesis "
        "schedules with up to 4 priority-change points plus dense random schedules, and every single-preemption schedule of 5 fixed "
        "scenarios; thorough: every single-preemption schedule of 14 scenarios and many more random ones. Oracle on the end state and the "
        "send log: originated sequence numbers pairwise distinct; per CBF key at most one transmission and none that began after cancel() "
        "returned; every originated packet carries a position vector that was installed at some instant; every unicast request buffered for "
        "the lookup is sent exactly once or still buffered / dropped by the final retry, never twice; no actor fails; no deadlock. "
        "Non-trivial = schedule with >= 1 context switch between two accesses of sequence_number, _cbf_buffer, _ls_* or loc_t.")
ASSUMPTIONS = [
    "single bytecodes (dict / deque operations) are atomic, as under the GIL",
    "coverage is bounded by scenario size (<= 4 actors x <= 3 operations) and the preemption bound; this explores schedules, it cannot establish absence of races",
    "liveness is checked as: every actor finishes within the step bound and no state has all live actors blocked",
]

OWN = b"\x02\x00\x00\x00\x00\x01"
NEIGH = b"\x02\x00\x00\x00\x0a\x01"
D1 = b"\x02\x00\x00\x00\x0d\x01"
D2 = b"\x02\x00\x00\x00\x0d\x02"
SRC = b"\x02\x00\x00\x00\x0c\x01"
EGO = (413000000, 21000000)
TPVS = [{"lat": 41.3001, "lon": 2.1001, "speed": 3.0, "track": 10.0, "time": "2023-11-14T22:13:21.000Z"},
        {"lat": 41.3002, "lon": 2.1002, "speed": 4.0, "track": 20.0, "time": "2023-11-14T22:13:22.000Z"},
        {"lat": 41.3003, "lon": 2.1003, "speed": 5.0, "track": 30.0, "time": "2023-11-14T22:13:23.000Z"}]
OPS = ["gbc", "guc_known", "guc_pending", "shb", "rx_gbc", "rx_dup", "rx_lsrep", "rx_beacon", "refresh", "timer"]


class Rec:
    """Recording link layer (runs untraced, hence atomically)."""

    def __init__(self, s):
        self.s = s
        self.sent = []     # (point, actor name, bytes)

    def send(self, packet):
        me = self.s.me()
        self.sent.append((self.s.point, me.name if me else "setup", bytes(packet)))


def build_world(s, pre):
    """Real router with cooperative locks / virtual timers; `pre` selects the prepared state."""
    from flexstack.geonet import router as gr, location_table as lt
    from flexstack.geonet.mib import MIB, AreaForwardingAlgorithm
    from flexstack.geonet.position_vector import LongPositionVector, TST
    from flexstack.geonet.service_access_point import (Area, CommonNH, GeoBroadcastHST, GNDataRequest, HeaderSubType, HeaderType, PacketTransportType, TopoBroadcastHST)
    from ..stack import addr_bytes, make_addr
    from ..vclock import VClock, VTimer, tst32

    clock = VClock(1_700_000_000.0)
    clock.install([gr, lt])
    L, R = sch.lock_factories(s)
    clock._set(gr, "Lock", L)
    clock._set(lt, "Lock", L)
    clock._set(lt, "RLock", R)

    class PTimer(VTimer):
        def cancel(self):
            super().cancel()
            self.cancel_point = s.point
    timers = []

    def timer_factory(interval, function, args=None, kwargs=None):
        t = PTimer(interval, function, args, kwargs, clock=clock)
        timers.append(t)
        return t
    clock._set(gr, "Timer", timer_factory)
    mib = MIB(itsGnLocalGnAddr=make_addr(OWN), itsGnBeaconServiceRetransmitTimer=0, itsGnAreaForwardingAlgorithm=AreaForwardingAlgorithm.CBF, itsGnMaxPacketDataRate=10**9,
              itsGnLocationServiceMaxRetrans=2)
    r = gr.Router(mib)
    ll = Rec(s)
    r.link_layer = ll
    pv0 = LongPositionVector(gn_addr=make_addr(OWN), tst=TST(msec=tst32(clock.now)), latitude=EGO[0], longitude=EGO[1], pai=True, s=100, h=900)
    r.ego_position_vector = pv0
    now = clock.now

    def so(mid, dlat=1000):
        return {"addr": addr_bytes(mid), "tst": tst32(now), "lat": EGO[0] + dlat, "lon": EGO[1] + dlat, "pai": 1}
    area = {"lat": EGO[0], "lon": EGO[1], "a": 800, "b": 800, "angle": 0, "shape": 0}
    r.gn_data_indicate(rc.build_packet("beacon", so=so(NEIGH)))
    r.gn_data_indicate(rc.build_packet("beacon", so=so(D1, 2000)))
    frames = {
        "gbc_new": rc.build_packet("gbc", so=so(SRC, 3000), sn=500, rhl=3, mhl=3, area=area, payload=b"\x07\xd2\x00\x00new"),
        "gbc_buf": rc.build_packet("gbc", so=so(SRC, 3000), sn=400, rhl=3, mhl=3, area=area, payload=b"\x07\xd2\x00\x00buf"),
        "lsrep": rc.build_packet("lsrep", so=so(D2, 4000), sn=77, rhl=2, mhl=2, de={"addr": addr_bytes(OWN), "tst": tst32(now), "lat": EGO[0], "lon": EGO[1]}),
        "beacon": rc.build_packet("beacon", so=so(b"\x02\x00\x00\x00\x0b\x07", 5000)),
    }

    def req(kind, tag):
        data = b"\x07\xd1\x00\x00" + tag
        if kind == "gbc":
            return GNDataRequest(upper_protocol_entity=CommonNH.BTP_B, packet_transport_type=PacketTransportType(HeaderType.GEOBROADCAST, GeoBroadcastHST.GEOBROADCAST_CIRCLE),
                                 area=Area(latitude=EGO[0], longitude=EGO[1], a=500, b=500, angle=0), data=data, length=len(data), max_hop_limit=3)
        if kind == "shb":
            return GNDataRequest(upper_protocol_entity=CommonNH.BTP_B, packet_transport_type=PacketTransportType(HeaderType.TSB, TopoBroadcastHST.SINGLE_HOP), data=data, length=len(data))
        return GNDataRequest(upper_protocol_entity=CommonNH.BTP_B, packet_transport_type=PacketTransportType(HeaderType.GEOUNICAST, HeaderSubType.UNSPECIFIED),
                             destination=make_addr(D1 if kind == "guc_known" else D2), data=data, length=len(data), max_hop_limit=3)
    if pre.get("ls_pending"):
        r.gn_data_request(req("guc_pending", b"pre0"))
    if pre.get("cbf_buffered"):
        r.gn_data_indicate(frames["gbc_buf"])
    if pre.get("sn_near_wrap") and not pre.get("ls_pending"):
        r.sequence_number = 2 ** 16 - 3        # a long history of originated packets: the next numbers straddle the wrap
    return {"clock": clock, "router": r, "ll": ll, "frames": frames, "req": req, "timers": timers, "pv0": pv0}


_WARM = [False]


def run_schedule(case):
    """case = {"pre": {...}, "actors": [[op,...],...], "schedule": [...]}"""
    if not _WARM[0]:
        # CPython instruments a code object for opcode events the first time a traced frame asks for them and the
        # first execution sees fewer events than later ones: execute every operation once (twice, to be safe) before
        # any judged run so that a schedule means the same thing in every process (replay determinism).
        _WARM[0] = True
        for pre in ({"ls_pending": True, "cbf_buffered": True}, {"ls_pending": False, "cbf_buffered": False}):
            for _ in range(2):
                _run_schedule({"pre": pre, "actors": [list(OPS) + ["timer", "timer", "timer"], ["guc_pending", "rx_lsrep", "rx_dup", "gbc"]], "schedule": [0, 0, 0, 1, 0, 0, 1]})
    return _run_schedule(case)


def _run_schedule(case):
    import contextlib
    import io
    from flexstack.geonet import router as gr, location_table as lt
    s = sch.Scheduler({gr.__file__, lt.__file__}, case["schedule"], max_points=40000)
    w = build_world(s, case["pre"])
    clock, r, ll = w["clock"], w["router"], w["ll"]
    vs = []
    try:
        installed = [(EGO[0], EGO[1], 100, 900)]
        dup_done = []          # points at which a duplicate-delivery operation completed
        tagn = [0]
        tags_pending = ["pre0"] if case["pre"].get("ls_pending") else []
        n_setup_sent = len(ll.sent)

        def make_actor(ai, ops):
            def body():
                if True:      # (sys.stdout redirection is process-global and must not be toggled by interleaved actors)
                    for oi, op in enumerate(ops):
                        tag = ("a%do%d" % (ai, oi)).encode()
                        if op in ("gbc", "shb", "guc_known"):
                            r.gn_data_request(w["req"](op, tag))
                        elif op == "guc_pending":
                            tags_pending.append(tag.decode())
                            r.gn_data_request(w["req"](op, tag))
                        elif op == "rx_gbc":
                            r.gn_data_indicate(w["frames"]["gbc_new"])
                        elif op == "rx_dup":
                            r.gn_data_indicate(w["frames"]["gbc_buf"])
                            dup_done.append(s.point)
                        elif op == "rx_lsrep":
                            r.gn_data_indicate(w["frames"]["lsrep"])
                        elif op == "rx_beacon":
                            r.gn_data_indicate(w["frames"]["beacon"])
                        elif op == "refresh":
                            t = TPVS[(ai + oi) % len(TPVS)]
                            installed.append((int(t["lat"] * 10**7), int(t["lon"] * 10**7), int(t["speed"] * 100), int(t["track"] * 10)))
                            r.refresh_ego_position_vector(t)
                        elif op == "timer":
                            pend = [t for t in w["timers"] if t.started and not t.fired and not t.cancelled]
                            if pend:
                                t = min(pend, key=lambda x: (x.due, x.id))
                                clock.now = max(clock.now, t.due)
                                # threading.Timer.run: wait(); if not finished.is_set(): function()
                                if not t.cancelled:
                                    s.yield_point()
                                    t.fired = True
                                    t.fire_point = s.point
                                    t.function(*t.args, **t.kwargs)
            return body
        for ai, ops in enumerate(case["actors"]):
            s.spawn("A%d" % ai, make_actor(ai, ops))
        try:
            s.run()
        except RuntimeError:
            # real-time watchdog of the harness (slow machine): a time budget hit is inconclusive, never a violation; livelocks are
            # caught logically by the preemption-point bound, deadlocks by the scheduler
            out = Outcome([], labels=["watchdog-inconclusive"], nontrivial=False, excluded=["real-time watchdog hit (inconclusive)"])
            out.points = s.point
            return out
        if s.deadlock:
            vs.append(violation(ID, "C15/deadlock", "no runnable actor: %r" % (s.deadlock,)))
        elif s.aborted and not vs:
            vs.append(violation(ID, "C15/step-bound-exceeded", "actors did not finish within %d preemption points" % s.max_points))
        for a in s.actors:
            if a.error is not None:
                vs.append(violation(ID, "C15/actor-fails:%s" % type(a.error).__name__, "actor %s raised %r" % (a.name, a.error)))
        # ---- analysis of the send log
        own_ab = rc.build_addr(0, 5, OWN)
        sns = {}
        fwd = {}
        guc_tags = {}
        for (pt, who, pkt) in ll.sent[n_setup_sent:] if False else ll.sent:
            try:
                p = rc.parse_packet(pkt)
            except Exception:
                continue
            ext = p.get("ext") or {}
            sop = ext.get("so")
            if sop is None:
                continue
            if sop["addr"][2:] == OWN:
                pvk = (sop["lat"], sop["lon"], sop["speed"], sop["heading"])
                if pvk not in installed:
                    vs.append(violation(ID, "C15/emitted-pv-never-installed", "packet sent by %s at point %d carries PV %r, installed PVs %r" % (who, pt, pvk, installed)))
                if "sn" in ext and p["common"]["ht"] in (rc.HT_GBC, rc.HT_GAC, rc.HT_GUC, rc.HT_LS, rc.HT_TSB):
                    sns.setdefault(ext["sn"], []).append((pt, who, p["common"]["ht"]))
                if p["common"]["ht"] == rc.HT_GUC and ext["de"]["addr"][2:] == D2:
                    guc_tags.setdefault(p["payload"][4:].decode(errors="replace"), []).append(pt)
            elif sop["addr"][2:] == SRC and p["common"]["ht"] == rc.HT_GBC:
                fwd.setdefault(ext["sn"], []).append((pt, who))
        for sn, lst in sns.items():
            if len(lst) > 1:
                vs.append(violation(ID, "C15/duplicate-sequence-number", "sequence number %d given to %d originated packets: %r" % (sn, len(lst), lst)))
        for sn, lst in fwd.items():
            if len(lst) > 1:
                vs.append(violation(ID, "C15/cbf-packet-transmitted-twice", "buffered GBC (SN %d) transmitted %d times: %r" % (sn, len(lst), lst)))
        cancelled = [t for t in w["timers"] if getattr(t, "cancel_point", None) is not None and t.args and isinstance(t.args[0], tuple)]
        for t in cancelled:
            key_sn = t.args[0][1]
            for (pt, who) in fwd.get(key_sn, []):
                # cancel() is only called by the duplicate handler after it took the copy out of the buffer: from then on the copy
                # must not go out, whether the timer function had already started or not
                if pt > t.cancel_point:
                    vs.append(violation(ID, "C15/cbf-sent-after-cancel-completed", "copy of SN %d: cancel() returned at point %d, timer function started at point %d and sent at %d" % (key_sn, t.cancel_point, getattr(t, "fire_point", -1), pt)))
        for tag, pts in guc_tags.items():
            if len(pts) > 1:
                vs.append(violation(ID, "C15/buffered-guc-sent-twice", "unicast request %r to the looked-up destination sent %d times (points %r)" % (tag, len(pts), pts)))
        still = [bytes(q.data)[4:].decode(errors="replace") for lst in r._ls_packet_buffers.values() for q in lst]
        gave_up = any(getattr(t, "fired", False) and t.function == r._ls_retransmit for t in w["timers"])
        for tag in tags_pending:
            n = len(guc_tags.get(tag, []))
            if n == 0 and tag not in still and not gave_up:
                vs.append(violation(ID, "C15/buffered-guc-lost", "unicast request %r was neither sent nor is it still buffered (buffers: %r)" % (tag, still)))
        hot = {"router.py", "location_table.py"}
        nontrivial = s.switches > 0 and any(site.split(":")[0] in hot for site in s.switch_sites)
        labels = ["switches:%s" % ("0" if s.switches == 0 else ("1" if s.switches == 1 else ("2-5" if s.switches <= 5 else ">5"))), "points:%s" % ("<300" if s.point < 300 else ("<1000" if s.point < 1000 else ">=1000"))]
        out = Outcome(vs, labels=labels, nontrivial=nontrivial)
        out.points = s.point
        out.sites = s.switch_sites
        return out
    finally:
        w["clock"].uninstall()


# ---- strategies ---------------------------------------------------------------------------------
def scenario_s():
    ops = st.sampled_from(OPS)
    return st.fixed_dictionaries({
        "pre": st.fixed_dictionaries({"ls_pending": st.booleans(), "cbf_buffered": st.booleans(), "sn_near_wrap": st.sampled_from([False, False, True])}),
        "actors": st.lists(st.lists(ops, min_size=1, max_size=3), min_size=2, max_size=4),
    })


def schedule_s():
    sparse = st.lists(st.tuples(st.integers(0, 300) | st.integers(0, 1200), st.integers(1, 3)), min_size=1, max_size=4).map(_sparse)
    dense = st.lists(st.sampled_from([0, 0, 0, 0, 0, 0, 0, 1, 2]), min_size=10, max_size=600)
    return st.one_of(sparse, sparse, dense)


def _sparse(changes):
    n = max(p for p, _ in changes) + 1
    out = [0] * n
    for p, k in changes:
        out[p] = k
    return out


def case_s():
    return st.tuples(scenario_s(), schedule_s()).map(lambda t: dict(t[0], schedule=t[1]))


def run_case(case):
    return run_schedule(case)


def job_random(n, seed):
    return core.hyp_run(case_s(), run_case, n=n, seed=seed, kind="schedule")


FIXED = [
    {"pre": {"ls_pending": False, "cbf_buffered": False}, "actors": [["gbc", "gbc"], ["gbc", "guc_known"]]},
    {"pre": {"ls_pending": False, "cbf_buffered": True}, "actors": [["timer"], ["rx_dup"]]},
    {"pre": {"ls_pending": True, "cbf_buffered": False}, "actors": [["guc_pending"], ["rx_lsrep"], ["timer"]]},
    {"pre": {"ls_pending": True, "cbf_buffered": False}, "actors": [["guc_pending", "guc_pending"], ["rx_lsrep"]]},
    {"pre": {"ls_pending": False, "cbf_buffered": False}, "actors": [["refresh", "gbc"], ["shb", "refresh"], ["guc_known"]]},
    {"pre": {"ls_pending": False, "cbf_buffered": False}, "actors": [["rx_gbc", "timer"], ["rx_gbc"]]},
    {"pre": {"ls_pending": False, "cbf_buffered": True}, "actors": [["timer", "timer"], ["rx_dup"], ["rx_gbc"]]},
    {"pre": {"ls_pending": False, "cbf_buffered": False}, "actors": [["guc_pending"], ["guc_pending"], ["rx_lsrep"]]},
    {"pre": {"ls_pending": True, "cbf_buffered": False}, "actors": [["timer", "timer", "timer"], ["rx_lsrep"]]},
    {"pre": {"ls_pending": False, "cbf_buffered": False}, "actors": [["rx_beacon", "gbc"], ["rx_gbc"], ["gbc"]]},
    {"pre": {"ls_pending": True, "cbf_buffered": True}, "actors": [["rx_lsrep"], ["rx_dup"], ["timer"], ["gbc"]]},
    {"pre": {"ls_pending": False, "cbf_buffered": False}, "actors": [["gbc"], ["gbc"], ["gbc"], ["gbc"]]},
    {"pre": {"ls_pending": True, "cbf_buffered": False}, "actors": [["timer", "timer", "timer"], ["guc_pending"]]},
    {"pre": {"ls_pending": False, "cbf_buffered": False}, "actors": [["guc_pending"], ["guc_pending", "rx_lsrep"]]},
    {"pre": {"ls_pending": False, "cbf_buffered": False, "sn_near_wrap": True}, "actors": [["gbc", "gbc"], ["gbc"]]},
    # an originator scanning the neighbours while a reception / a lookup adds a station to the location table
    {"pre": {"ls_pending": False, "cbf_buffered": False}, "actors": [["gbc"], ["rx_beacon"]]},
    {"pre": {"ls_pending": False, "cbf_buffered": False}, "actors": [["guc_known"], ["guc_pending"]]},
]


def job_systematic(scenario_i, shard, nshards):
    """Every schedule with exactly one preemption (position x target actor) for one fixed scenario."""
    part = Partial()
    sc = FIXED[scenario_i]
    n_act = len(sc["actors"])
    i = 0
    tot_points = 0
    # decision 0 chooses the actor that starts; then exactly one preemption at point p >= 1 (every actor gets to be the preempted one)
    for start in range(n_act):
        base = run_schedule(dict(sc, schedule=[start]))
        part.record(dict(sc, schedule=[start]), base, kind="schedule")
        n_points = getattr(base, "points", 0)
        tot_points += n_points
        for p in range(1, n_points):
            for k in range(1, n_act):
                if i % nshards == shard:
                    case = dict(sc, schedule=[start] + [0] * (p - 1) + [k])
                    out = run_schedule(case)
                    part.record({"scenario": scenario_i, "start": start, "preempt_at": p, "to": k}, out, kind="systematic", hash_case=False, sample_cap=1)
                    for v in out.violations:
                        v["case"] = case
                        v["kind"] = "schedule"
                i += 1
    part.subcount("systematic-single-preemption:scenario%d" % scenario_i, points=tot_points if shard == 0 else 0, schedules=i // nshards, exhaustive_single_preemption=True)
    return part


def jobs(tier, seed):
    js = []
    if tier == "quick":
        for s in range(10):
            js.append({"fn": "vf.props.c15:job_random", "args": {"n": 220, "seed": seed * 1000 + s}})
        for sc in (0, 1, 2, 12, 13, 14, 15, 16):
            for sh in range(2):
                js.append({"fn": "vf.props.c15:job_systematic", "args": {"scenario_i": sc, "shard": sh, "nshards": 2}})
    else:
        for s in range(16):
            js.append({"fn": "vf.props.c15:job_random", "args": {"n": 5000, "seed": seed * 1000 + s}})
        for sc in range(len(FIXED)):
            for sh in range(4):
                js.append({"fn": "vf.props.c15:job_systematic", "args": {"scenario_i": sc, "shard": sh, "nshards": 4}})
    return js


def replay(kind, case):
    return run_schedule(case)

"""C07 - Geo-addressed packets are delivered exactly inside the destination area."""
from __future__ import annotations

import math

from hypothesis import strategies as st

from .. import core, refcodec as rc, refgeo as rg
from ..core import Outcome, violation

ID = "C07"
RULE = ("Area centre over the signed WGS-84 range, shape circle/rectangle/ellipse, semi-axes 1..65535 m (log-uniform + size-limit "
        "boundaries), azimuth 0..359, GBC and GAC; the receiver (and independently the source) is placed by construction in the area "
        "frame at 0, 0.5, 0.9, 1.1, 2, 5 x the border (or a drawn factor) along a drawn bearing, mapped to lat/lon by the great-circle "
        "forward formula; packets built by the reference codec are received by a real router (SIMPLE area forwarding), requests go "
        "through gn_data_request with itsGnMaxGeoAreaSize in {1,10,80,10000} km^2. Oracle = vf/refgeo (two projections; verdict only "
        "when both agree outside a 3 % + 2 m band): delivered <=> inside; forwarding per Annex D (inside -> area forwarding for GBC, "
        "none for GAC; outside and source inside with PAI -> discard; else non-area forwarding); oversized -> refused / not forwarded. "
        "Non-trivial = verdict available and (rotated non-circular area whose unrotated verdict differs, or southern/western hemisphere, "
        "or centre and station on different sides of the antimeridian, or area size within 2 % of the limit).")
ASSUMPTIONS = [
    "no verdict inside the tolerance band (3 % of the semi-axes + 2 m + twice the distance between the two reference projections of the point), or beyond |lat| 85 degrees; areas that straddle the antimeridian are judged like any other (longitude differences taken the short way round)",
    "the 'sender' of Annex D is the source (single hop from the originator), as the implementation has no previous-hop address",
    "traffic class without SCF so that non-area forwarding means 'transmit'",
]

OWN = b"\x02\x00\x00\x00\x00\x01"
SRC = b"\x02\x00\x00\x00\x40\x01"
RHO = st.one_of(st.sampled_from([0.0, 0.5, 0.9, 1.1, 2.0, 5.0]), st.floats(0.0, 3.0, allow_nan=False).map(lambda x: round(x, 3)))


def _axes():
    logu = st.floats(0.0, math.log(65535.0)).map(lambda x: max(1, min(65535, int(round(math.exp(x))))))
    lim = []
    for km2 in (1, 10, 80, 10000):
        r = math.sqrt(km2 * 1e6 / math.pi)
        h = math.sqrt(km2 * 1e6 / 4)
        lim += [int(r), int(r) + 1, int(h), int(h) + 1]
    lim = [x for x in lim if 1 <= x <= 65535]
    return st.one_of(logu, st.sampled_from([1, 2, 100, 65535] + lim))


def case_s():
    return st.fixed_dictionaries({
        "mode": st.sampled_from(["rx", "rx", "rx", "req"]),
        "kind": st.sampled_from(["gbc", "gac"]),
        "shape": st.integers(0, 2),
        "a": _axes(), "b": _axes(),
        "angle": st.one_of(st.sampled_from([0, 45, 90, 135, 180, 270, 359]), st.integers(0, 359)),
        "clat": st.one_of(st.sampled_from([0, 413000000, -337000000, 600000000, -600000000, 849000000]), st.integers(-890000000, 890000000)),
        "clon": st.one_of(st.sampled_from([0, 21000000, -707000000, 1799000000, -1799000000, 1799990000, -1800000000, 1799999999]), st.integers(-1800000000, 1799999999)),
        "rho": RHO, "phi": st.integers(0, 359), "side": st.floats(-1, 1).map(lambda x: round(x, 3)),
        "so_rho": RHO, "so_phi": st.integers(0, 359), "so_side": st.floats(-1, 1).map(lambda x: round(x, 3)),
        "pai": st.integers(0, 1),
        "rhl": st.sampled_from([1, 2, 5, 10]),
        "max_km2": st.sampled_from([1, 10, 80, 10000]),
        # fault injection: the link layer refuses every transmission (SendingException / PacketTooLongException) - what a reception
        # delivers to the upper layer must not depend on whether the copy could be forwarded
        "send_fails": st.sampled_from([None, None, None, "sending", "too_long"]),
    })


def place(case, rho, phi, side):
    """Point in the area frame at `rho` times the border, mapped to lat/lon ints."""
    a, b, shape = case["a"], case["b"], case["shape"]
    if shape == 0:
        al, ac = rho * a * math.cos(math.radians(phi)), rho * a * math.sin(math.radians(phi))
    elif shape == 2:
        al, ac = rho * a * math.cos(math.radians(phi)), rho * b * math.sin(math.radians(phi))
    else:
        # rectangle: max(|u|,|v|) = rho
        if phi % 2 == 0:
            u, v = rho * (1 if phi < 180 else -1), rho * side
        else:
            u, v = rho * side, rho * (1 if phi < 180 else -1)
        al, ac = u * a, v * b
    n, e = rg.from_area_frame(al, ac, case["angle"])
    return rg.destination(case["clat"], case["clon"], n, e)


def run_case(case):
    from flexstack.geonet import router as gr, location_table as ltm
    from flexstack.geonet.mib import AreaForwardingAlgorithm
    from flexstack.geonet.service_access_point import (Area, CommonNH, GeoAnycastHST, GeoBroadcastHST, GNDataRequest, HeaderType,
                                                       PacketTransportType, ResultCode)
    from ..stack import Station, addr_bytes
    from ..vclock import VClock, tst32

    labels = []
    vs = []
    shape, a, b, angle = case["shape"], case["a"], case["b"], case["angle"]
    clock = VClock(1_700_000_000.0)
    clock.install([gr, ltm])
    try:
        ego = place(case, case["rho"], case["phi"], case["side"])
        if not (-900000000 <= ego[0] <= 900000000 and -1800000000 <= ego[1] <= 1800000000):
            return Outcome([], labels=["placement-off-range"])
        st_ = Station(None, OWN, mib_kwargs=dict(itsGnMaxGeoAreaSize=case["max_km2"], itsGnMaxPacketDataRate=10**9,
                                                 itsGnAreaForwardingAlgorithm=AreaForwardingAlgorithm.SIMPLE))
        st_.set_position(clock.now, ego[0], ego[1])
        if case.get("send_fails"):
            from flexstack.linklayer.exceptions import PacketTooLongException, SendingException
            exc = SendingException if case["send_fails"] == "sending" else PacketTooLongException
            ll_ = st_.ll

            def failing_send(packet, ll_=ll_, exc=exc):
                ll_.sent.append(bytes(packet))          # the attempt is what the forwarding clauses are judged on
                raise exc("injected link-layer failure")
            ll_.send = failing_send
            labels.append("link-layer-send-fails")
        size = rg.area_size_m2(shape, a, b)
        limit = case["max_km2"] * 1e6
        near_limit = abs(size - limit) <= 0.02 * limit
        oversized = size > limit
        v_ego = rg.verdict(shape, a, b, angle, case["clat"], case["clon"], ego[0], ego[1])
        v_unrot = rg.verdict(shape, a, b, 0, case["clat"], case["clon"], ego[0], ego[1])
        rotated_matters = shape != 0 and a != b and angle % 180 != 0 and v_ego is not None and v_unrot is not None and v_ego != v_unrot
        straddles = abs(ego[1] - case["clon"]) > 1800000000
        nontrivial = v_ego is not None and (rotated_matters or case["clat"] < 0 or case["clon"] < 0 or near_limit or straddles)
        labels.append("ego:%s" % v_ego)
        if straddles:
            labels.append("ego-across-antimeridian:%s" % v_ego)
        if rotated_matters:
            labels.append("rotation-decides")
        if near_limit:
            labels.append("size-near-limit")
        if case["mode"] == "req":
            labels.append("request")
            hst = GeoBroadcastHST(shape) if case["kind"] == "gbc" else GeoAnycastHST(shape)
            ht = HeaderType.GEOBROADCAST if case["kind"] == "gbc" else HeaderType.GEOANYCAST
            data = b"\x07\xd2\x00\x00req"
            req = GNDataRequest(upper_protocol_entity=CommonNH.BTP_B, packet_transport_type=PacketTransportType(ht, hst),
                                area=Area(latitude=case["clat"], longitude=case["clon"], a=a, b=b, angle=angle), data=data, length=len(data), max_hop_limit=5)
            try:
                conf = st_.call(st_.gn.gn_data_request, req)
            except Exception as e:
                return Outcome([violation(ID, "C07/request-raises:%s" % type(e).__name__, "%s request raised %r" % (case["kind"], e))], labels, nontrivial)
            sent = st_.ll.sent
            if abs(size - limit) < 1e-6 * limit:
                pass
            elif oversized:
                if conf.result_code != ResultCode.GEOGRAPHICAL_SCOPE_TOO_LARGE or sent:
                    vs.append(violation(ID, "C07/oversized-request-not-refused", "area %.0f m2 > limit %.0f m2: result %s, %d packets sent" % (size, limit, conf.result_code, len(sent))))
            else:
                ok_codes = (ResultCode.ACCEPTED,) if not case.get("send_fails") else (ResultCode.MAXIMUM_LENGTH_EXCEEDED, ResultCode.UNSPECIFIED)
                if conf.result_code not in ok_codes or len(sent) != 1:
                    vs.append(violation(ID, "C07/request-within-limit-not-sent", "area %.0f m2 <= limit %.0f m2: result %s, %d packets sent" % (size, limit, conf.result_code, len(sent))))
                else:
                    p = rc.parse_packet(sent[0])
                    ext = p["ext"]
                    if (ext["lat"], ext["lon"], ext["a"], ext["b"], ext["angle"], p["common"]["hst"]) != (case["clat"], case["clon"], a, b, angle, shape):
                        vs.append(violation(ID, "C07/request-area-not-on-wire", "emitted area %r differs from the request" % ((ext["lat"], ext["lon"], ext["a"], ext["b"], ext["angle"], p["common"]["hst"]),)))
            return Outcome(vs, labels, nontrivial)

        # ---- reception
        so = place(case, case["so_rho"], case["so_phi"], case["so_side"])
        if not (-900000000 <= so[0] <= 900000000 and -1800000000 <= so[1] <= 1800000000):
            return Outcome([], labels=["placement-off-range"])
        v_so = rg.verdict(shape, a, b, angle, case["clat"], case["clon"], so[0], so[1])
        labels.append("so:%s/pai%d" % (v_so, case["pai"]))
        pkt = rc.build_packet(case["kind"], so={"addr": addr_bytes(SRC), "tst": tst32(clock.now), "lat": so[0], "lon": so[1], "pai": case["pai"]},
                              sn=77, rhl=case["rhl"], mhl=10, payload=b"\x07\xd2\x00\x00geo",
                              area={"lat": case["clat"], "lon": case["clon"], "a": a, "b": b, "angle": angle, "shape": shape})
        err = st_.receive(pkt)
        if err is not None:
            return Outcome([violation(ID, "C07/reception-raises:%s" % type(err).__name__, "conformant %s raised %r" % (case["kind"], err))], labels, nontrivial)
        delivered = len(st_.gn_indications)
        sent = st_.ll.sent
        if v_ego == "inside" and delivered != 1:
            vs.append(violation(ID, "C07/inside-not-delivered:%s" % ("rotated" if rotated_matters else "shape%d" % shape),
                                "%s shape %d a=%d b=%d azimuth %d centre (%d,%d): receiver (%d,%d) is inside but got %d indications" % (
                                    case["kind"], shape, a, b, angle, case["clat"], case["clon"], ego[0], ego[1], delivered)))
        if v_ego == "outside" and delivered != 0:
            vs.append(violation(ID, "C07/outside-delivered:%s" % ("rotated" if rotated_matters else "shape%d" % shape),
                                "%s shape %d a=%d b=%d azimuth %d centre (%d,%d): receiver (%d,%d) is outside but got %d indications" % (
                                    case["kind"], shape, a, b, angle, case["clat"], case["clon"], ego[0], ego[1], delivered)))
        # forwarding decision (Annex D), only when every verdict it depends on is available
        want_fwd = None
        if abs(size - limit) < 1e-6 * limit:
            want_fwd = None
        elif case["rhl"] <= 1 or oversized:
            want_fwd = False
        elif v_ego == "inside":
            want_fwd = case["kind"] == "gbc"
        elif v_ego == "outside":
            if case["pai"] == 0:
                want_fwd = True
            elif v_so == "inside":
                want_fwd = False
            elif v_so == "outside":
                want_fwd = True
        if want_fwd is not None:
            labels.append("fwd-expected:%s" % want_fwd)
            if want_fwd and len(sent) != 1:
                vs.append(violation(ID, "C07/not-forwarded:%s-ego-%s" % (case["kind"], v_ego), "%s: expected a forward (ego %s, source %s, PAI %d, RHL %d, size %.0f/%.0f) but %d frames sent" % (
                    case["kind"], v_ego, v_so, case["pai"], case["rhl"], size, limit, len(sent))))
            if not want_fwd and sent:
                why = "oversized" if oversized else ("rhl" if case["rhl"] <= 1 else "ego-%s" % v_ego)
                vs.append(violation(ID, "C07/forwarded-unexpectedly:%s-%s" % (case["kind"], why), "%s: expected no forward (ego %s, source %s, PAI %d, RHL %d, size %.0f/%.0f) but %d frames sent" % (
                    case["kind"], v_ego, v_so, case["pai"], case["rhl"], size, limit, len(sent))))
        return Outcome(vs, labels, nontrivial)
    finally:
        clock.uninstall()


def job(n, seed):
    return core.hyp_run(case_s(), run_case, n=n, seed=seed, kind="placement")


def jobs(tier, seed):
    k = 1 if tier == "quick" else 20
    return [{"fn": "vf.props.c07:job", "args": {"n": 4000 * k, "seed": seed * 1000 + s}} for s in range(16)]


def replay(kind, case):
    return run_case(case)

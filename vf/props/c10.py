"""C10 - CAM and VAM generation follow the timing and trigger rules of their standards."""
from __future__ import annotations

import math

from hypothesis import strategies as st

from .. import core, fac
from ..core import Outcome, violation

ID = "C10"
RULE = ("Trajectories as timed report sequences built from a segment grammar {constant, accelerate (<= 10 m/s^2), turn (<= 90 deg/s, crossing "
        "0/360), stop-and-go, GPS jitter, report gap, dropped optional field} at report rates 1..50 Hz with per-report jitter, report "
        "timestamps placed across generationDeltaTime wraps, 10 s..10 min of virtual time (thorough: up to 2 h), with service start / stop / "
        "restart at drawn instants and a drawn initial timer delay. The real CAMTransmissionManagement runs on virtual timers, the real "
        "VAMTransmissionManagement (with and without a clustering manager) on the report callbacks; every BTPDataRequest is time-stamped by "
        "the virtual clock and decoded. Oracle = independent rule engines replayed over the same check instants / reports (gap bounds, "
        "required CAM at the first check with >= 100 ms elapsed and a threshold exceeded, LF container exactly when due, nothing outside "
        "start..stop, content = latest report, gdt; VAM first-report, T_GenVamMin, T_GenVamMax + period, LF after 2 s). Non-trivial = run "
        "with >= 20 messages containing dynamics-triggered and timeout messages, or a restart, heading wrap, gdt wrap, or report rate > 10 Hz.")
ASSUMPTIONS = [
    "interval clauses carry +-1.5 ms slack (the CAM engine measures elapsed time in truncated milliseconds); thresholds within 1 % of the boundary give no verdict",
    "additional CAMs are allowed (T_GenCam shrinks after a dynamics-triggered CAM): required CAMs and gap bounds are demanded, not sequence equality",
    "a dynamics dimension is judged only when the field is present in the latest report and in the report the last CAM was built from",
    "VAM LF inclusion is checked one-directionally (due implies present)",
]


# ---- trajectory grammar ------------------------------------------------------------------------
def segment_s():
    return st.fixed_dictionaries({
        "kind": st.sampled_from(["const", "accel", "turn", "stopgo", "jitter", "gap", "const", "turn"]),
        "dur_ms": st.sampled_from([300, 700, 1500, 3000, 6000]),
        "a": st.sampled_from([-10.0, -3.0, 1.0, 4.0, 10.0]),
        "w": st.sampled_from([-90.0, -30.0, 8.0, 45.0, 90.0]),
        "drop": st.sampled_from([None, None, None, "epx", "altHAE", "track", "speed"]),
    })


def case_s(max_segments=10):
    return st.fixed_dictionaries({
        "svc": st.sampled_from(["cam", "cam", "vam", "vam_cluster"]),
        "rate_hz": st.sampled_from([1, 2, 5, 10, 11, 20, 25, 50]),
        "jitter_ms": st.sampled_from([0, 0, 3, 9]),
        "d0_ms": st.integers(0, 100),
        "t0_ms": st.one_of(st.sampled_from([0, 65000, 64000]), st.integers(0, 65535)),
        "speed0": st.sampled_from([0.0, 1.4, 8.0, 13.9, 30.0]),
        "heading0": st.sampled_from([0.0, 1.0, 90.0, 358.0, 359.9]),
        "lat0": st.sampled_from([41.3, -33.7, 0.0001, 60.0]), "lon0": st.sampled_from([2.1, -70.7, 179.999, 0.0]),
        "segments": st.lists(segment_s(), min_size=1, max_size=max_segments),
        "life": st.lists(st.tuples(st.sampled_from(["stop", "start", "bounce", "bounce"]), st.integers(0, 100)), max_size=3),
        "seed": st.integers(0, 10**6),
    })


def build_reports(case):
    """Deterministic report list [(t_rel_s, fields)] from the grammar (pseudo-noise from a small LCG: no RNG of our own state)."""
    state = [case["seed"] * 2654435761 % (1 << 32) or 1]

    def noise():
        state[0] = (1103515245 * state[0] + 12345) % (1 << 31)
        return state[0] / (1 << 31) - 0.5
    period = 1.0 / case["rate_hz"]
    lat, lon, v, h = case["lat0"], case["lon0"], case["speed0"], case["heading0"]
    t = 0.0
    out = []
    for seg in case["segments"]:
        n = max(1, int(seg["dur_ms"] / 1000.0 / period))
        if seg["kind"] == "gap":
            t += seg["dur_ms"] / 1000.0
            continue
        for i in range(n):
            dt = period
            if seg["kind"] == "accel":
                v = min(60.0, max(0.0, v + seg["a"] * dt))
            elif seg["kind"] == "turn":
                h = (h + seg["w"] * dt) % 360.0
            elif seg["kind"] == "stopgo":
                v = 0.0 if (i * 2 // n) == 0 else min(60.0, v + 3.0 * dt)
            vv, hh = v, h
            if seg["kind"] == "jitter":
                vv = max(0.0, v + noise() * 1.0)
                hh = (h + noise() * 10.0) % 360.0
            # move
            d = v * dt
            lat += d * math.cos(math.radians(h)) / 111194.9
            lon += d * math.sin(math.radians(h)) / (111194.9 * max(0.1, math.cos(math.radians(lat))))
            t += dt
            tj = t + (noise() * 2 * case["jitter_ms"] / 1000.0 if case["jitter_ms"] else 0.0)
            f = {"lat": round(lat, 8), "lon": round(lon, 8), "speed": round(vv, 3), "track": round(hh, 3), "epx": 1.5, "epy": 1.2, "altHAE": 100.0, "epv": 2.0, "epd": 1.0}
            if seg["drop"] and i % 3 == 1:
                f.pop(seg["drop"], None)
            out.append((round(max(tj, (out[-1][0] + 0.001) if out else 0.001), 3), f))
    return out


def haversine(lat1, lon1, lat2, lon2):
    R = 6371000.0
    p1, p2 = math.radians(lat1), math.radians(lat2)
    a = math.sin((p2 - p1) / 2) ** 2 + math.cos(p1) * math.cos(p2) * math.sin(math.radians(lon2 - lon1) / 2) ** 2
    return 2 * R * math.asin(min(1.0, math.sqrt(a)))


def dyn_changed(cur, ref):
    """True only when a threshold is exceeded by a clear margin on a dimension present in both reports."""
    if "track" in cur and "track" in ref:
        d = abs(cur["track"] - ref["track"]) % 360.0
        d = min(d, 360.0 - d)
        if d > 4.04:
            return "heading"
    if all(k in cur and k in ref for k in ("lat", "lon")):
        if haversine(ref["lat"], ref["lon"], cur["lat"], cur["lon"]) > 4.04:
            return "position"
    if "speed" in cur and "speed" in ref:
        if abs(cur["speed"] - ref["speed"]) > 0.505:
            return "speed"
    return None


# ---- CAM ---------------------------------------------------------------------------------------
def run_cam(case, clock, labels):
    from flexstack.facilities.ca_basic_service.cam_transmission_management import CAMTransmissionManagement, VehicleData
    vs = []
    fac.install_cam_time(clock, case["d0_ms"] / 1000.0)
    btp = fac.RecBTP(clock)
    mgr = CAMTransmissionManagement(btp, fac.coder("cam"), VehicleData(station_id=4711, station_type=5))
    reports = build_reports(case)
    t_base = clock.now
    total = reports[-1][0] if reports else 1.0
    # life-cycle events (fractions of the run)
    life = [(0.0, "start")]
    for op, frac in case["life"]:
        if op == "bounce":       # stop and start again 20 ms later
            life += [(frac / 100.0 * total, "stop"), (frac / 100.0 * total + 0.02, "start")]
        else:
            life.append((frac / 100.0 * total, op))
    life.sort()
    events = sorted([(t, 1, "report", f) for t, f in reports] + [(t, 0, op, None) for t, op in life], key=lambda e: (e[0], e[1]))
    active_iv = []      # [start, stop or None]
    delivered = []      # (abs time, fields) reports delivered to the service
    for t, _, op, f in events:
        clock.advance_to(t_base + t)
        if op == "report":
            mgr.location_service_callback(fac.tpv(clock.now, f))
            delivered.append((clock.now, f))
        elif op == "start":
            if not active_iv or active_iv[-1][1] is not None:
                active_iv.append([clock.now, None])
                if len(active_iv) > 1:
                    labels.add("restart")
            mgr.start()
        else:
            if active_iv and active_iv[-1][1] is None:
                active_iv[-1][1] = clock.now
            mgr.stop()
    clock.advance(0.35)
    end = clock.now
    mgr.stop()
    checks = [t for (t, _) in clock.fired_log]
    cams = []
    for (t, req) in btp.requests:
        try:
            msg = fac.coder("cam").decode(req.data)
        except Exception as e:
            vs.append(violation(ID, "C10/cam-undecodable", "CAM at +%.3f s does not decode: %r" % (t - t_base, e)))
            continue
        cams.append((t, msg, req))
        if req.destination_port != 2001:
            vs.append(violation(ID, "C10/cam-wrong-port", "CAM handed over for port %d" % req.destination_port))

    def latest_report(at):
        r = None
        for (tr, f) in delivered:
            if tr < at - 1e-9:
                r = (tr, f)
            else:
                break
        return r

    def in_active(t):
        # virtual times are floats around 1.7e9 s (resolution 2.4e-7 s): a CAM whose timer is due at the very instant of the stop call
        # is emitted before the stop takes effect
        return any(a <= t + 1e-6 and (b is None or t <= b + 1e-6) for a, b in active_iv)

    for (t, msg, req) in cams:
        if not in_active(t):
            vs.append(violation(ID, "C10/cam-outside-start-stop", "CAM at +%.3f s while the service was not active (intervals %r)" % (t - t_base, [(a - t_base, None if b is None else b - t_base) for a, b in active_iv])))
    dyn_cams = timeout_cams = 0
    for (a, b) in active_iv:
        b_eff = end if b is None else b
        mine = [(t, m) for (t, m, _) in cams if a <= t + 1e-9 and t < b_eff - 1e-9]
        my_checks = [c for c in checks if a <= c + 1e-9 and c < b_eff - 1e-9]
        first_data = next((tr for (tr, _) in delivered), None)
        if first_data is None:
            continue
        # first CAM: at the latest T_GenCamMax + one check period after activation / first data
        t_need = max(a, first_data)
        if not mine:
            if b_eff - t_need > 1.102:
                vs.append(violation(ID, "C10/cam-none-while-active", "service active with position data from +%.3f s to +%.3f s but no CAM" % (t_need - t_base, b_eff - t_base)))
            continue
        if mine[0][0] - t_need > 1.1015:
            vs.append(violation(ID, "C10/cam-first-too-late", "first CAM %.1f ms after activation with data" % ((mine[0][0] - t_need) * 1000)))
        # gap bounds
        for (t1, _), (t2, _) in zip(mine, mine[1:]):
            gap = (t2 - t1) * 1000
            if gap < 100 - 1.5:
                vs.append(violation(ID, "C10/cam-gap-below-T_GenCamMin", "consecutive CAMs %.2f ms apart" % gap))
            if gap > 1100 + 1.5:
                vs.append(violation(ID, "C10/cam-gap-above-T_GenCamMax", "consecutive CAMs %.2f ms apart (at +%.3f s)" % (gap, t2 - t_base)))
        if b_eff - mine[-1][0] > 1.1015 + 0.1:
            vs.append(violation(ID, "C10/cam-gap-above-T_GenCamMax", "no CAM for %.1f ms until the end of the active interval" % ((b_eff - mine[-1][0]) * 1000)))
        # required CAM at the first check with >= 100 ms elapsed and a threshold exceeded
        cam_times = [t for (t, _) in mine]
        for c in my_checks:
            prev = [t for t in cam_times if t < c - 1e-9]
            if not prev:
                continue
            l = prev[-1]
            elapsed = (c - l) * 1000
            cur, ref = latest_report(c), latest_report(l)
            if cur is None or ref is None:
                continue
            why = dyn_changed(cur[1], ref[1]) if elapsed >= 101.5 else None
            has = any(abs(t - c) < 1e-6 for t in cam_times)
            if why and not has:
                vs.append(violation(ID, "C10/cam-missing-at-dynamics-trigger:%s" % why, "check at +%.3f s: %.1f ms since the last CAM and %s changed beyond the threshold, but no CAM" % (c - t_base, elapsed, why)))
            if has:
                if why:
                    dyn_cams += 1
                elif elapsed >= 999:
                    timeout_cams += 1
        # LF container: first CAM and exactly those >= 500 ms after the last LF
        last_lf = None
        for i, (t, m) in enumerate(mine):
            has_lf = "lowFrequencyContainer" in m["cam"]["camParameters"]
            if i == 0 or last_lf is None:
                due = True
            else:
                since = (t - last_lf) * 1000
                due = True if since >= 501.5 else (False if since <= 498.5 else None)
            if due is True and not has_lf:
                vs.append(violation(ID, "C10/cam-lf-missing:%s" % ("first" if i == 0 else "after-500ms"), "CAM %d at +%.3f s lacks the low-frequency container (last LF %s)" % (i, t - t_base, "none" if last_lf is None else "%.1f ms ago" % ((t - last_lf) * 1000))))
            if due is False and has_lf:
                vs.append(violation(ID, "C10/cam-lf-too-early", "CAM %d at +%.3f s carries the LF container only %.1f ms after the previous one" % (i, t - t_base, (t - last_lf) * 1000)))
            if has_lf:
                last_lf = t
        # content = latest report, gdt
        for (t, m) in mine:
            r = latest_report(t)
            if r is None:
                continue
            tr, f = r
            rp = m["cam"]["camParameters"]["basicContainer"]["referencePosition"]
            if "lat" in f and abs(rp["latitude"] - f["lat"] * 1e7) > 1.01:
                vs.append(violation(ID, "C10/cam-not-latest-report", "CAM at +%.3f s carries latitude %d, latest report (%.3f s old) has %r" % (t - t_base, rp["latitude"], t - tr, f["lat"])))
            want = fac.its_ms_of_iso(tr) % 65536
            gdt = m["cam"]["generationDeltaTime"]
            if min((gdt - want) % 65536, (want - gdt) % 65536) > 1:
                vs.append(violation(ID, "C10/cam-gdt-not-report-time", "CAM at +%.3f s: generationDeltaTime %d, report ITS time mod 65536 = %d" % (t - t_base, gdt, want)))
            if want < 2000 and t - t_base > 2:
                labels.add("gdt-wrap")
    if dyn_cams and timeout_cams:
        labels.add("dynamics+timeout")
    labels.add("cams:%s" % ("0" if not cams else ("<20" if len(cams) < 20 else ">=20")))
    return vs, len(cams)


# ---- VAM ---------------------------------------------------------------------------------------
def run_vam(case, clock, labels, clustered):
    from flexstack.facilities.vru_awareness_service.vam_transmission_management import DeviceDataProvider, VAMTransmissionManagement
    from flexstack.facilities.vru_awareness_service.vru_clustering import VBSClusteringManager
    import flexstack.facilities.vru_awareness_service.vam_transmission_management as vtm
    vs = []
    clock.install([vtm])
    fac.patch_real_time(clock)
    btp = fac.RecBTP(clock)
    cm = VBSClusteringManager(own_station_id=4711, time_fn=lambda: clock.now) if clustered else None
    mgr = VAMTransmissionManagement(btp, fac.coder("vam"), DeviceDataProvider(station_id=4711, station_type=1), clustering_manager=cm)
    reports = build_reports(case)
    t_base = clock.now
    total = reports[-1][0] if reports else 1.0
    silent = []     # intervals where the station is idle (role off): derived from the life list
    role_events = sorted((frac / 100.0 * total, "stop" if op == "bounce" else op) for op, frac in case["life"]) if clustered else []
    ev_i = 0
    idle = False
    delivered = []
    for (t, f) in reports:
        while ev_i < len(role_events) and role_events[ev_i][0] <= t:
            op = role_events[ev_i][1]
            ev_i += 1
            clock.advance_to(t_base + role_events[ev_i - 1][0])
            if op == "stop" and not idle:
                cm.set_vru_role_off()
                idle = True
                silent.append([clock.now, None])
            elif op == "start" and idle:
                cm.set_vru_role_on()
                idle = False
                silent[-1][1] = clock.now
                labels.add("restart")
        clock.advance_to(t_base + t)
        if "speed" not in f or "track" not in f:
            f = dict(f)          # the VAM path is driven with complete dynamics (missing keys are C11's subject)
            f.setdefault("speed", 1.0)
            f.setdefault("track", 0.0)
        n = len(btp.requests)
        try:
            mgr.location_service_callback(fac.tpv(clock.now, f))
        except Exception as e:
            vs.append(violation(ID, "C10/vam-callback-raises:%s" % type(e).__name__, "report at +%.3f s raised %r" % (t, e)))
            continue
        delivered.append((clock.now, f, idle, len(btp.requests) > n))
    vams = []
    for (t, req) in btp.requests:
        try:
            vams.append((t, fac.coder("vam").decode(req.data)))
        except Exception as e:
            vs.append(violation(ID, "C10/vam-undecodable", "VAM at +%.3f s: %r" % (t - t_base, e)))
    if not delivered:
        return vs, 0
    # after becoming active again (role on), the next report must produce a VAM at the latest T_GenVamMax later (covered by the gap rule)
    times = [t for (t, _) in vams]
    for t1, t2 in zip(times, times[1:]):
        gap = (t2 - t1) * 1000
        if gap < 100 - 1.5:
            vs.append(violation(ID, "C10/vam-gap-below-T_GenVamMin", "consecutive VAMs %.1f ms apart (report timestamps)" % gap))
    # T_GenVamMax + one report period while reports flow and the station is neither passive nor idle
    last = None
    prev_report_t = None
    for (t, f, was_idle, sent) in delivered:
        if was_idle:
            last = None
            prev_report_t = t
            continue
        if sent:
            last = t
        elif last is not None:
            period = t - prev_report_t if prev_report_t is not None else 0
            if (t - last) * 1000 > 5000 + period * 1000 + 1.5:
                vs.append(violation(ID, "C10/vam-gap-above-T_GenVamMax", "report at +%.3f s: %.0f ms since the last VAM and none generated" % (t - t_base, (t - last) * 1000)))
                last = t
        elif last is None and not sent:
            # first report after (re)activation must produce a VAM
            vs.append(violation(ID, "C10/vam-first-report-without-vam", "report at +%.3f s after (re)activation produced no VAM" % (t - t_base)))
            last = t
        prev_report_t = t
    # LF container
    last_lf = None
    for i, (t, m) in enumerate(vams):
        has_lf = "vruLowFrequencyContainer" in m["vam"]["vamParameters"]
        due = i == 0 or (last_lf is not None and (t - last_lf) * 1000 >= 2001.5)
        if due and not has_lf:
            vs.append(violation(ID, "C10/vam-lf-missing:%s" % ("first" if i == 0 else "after-2s"), "VAM %d at +%.3f s lacks the LF container" % (i, t - t_base)))
        if has_lf:
            last_lf = t
    labels.add("vams:%s" % ("0" if not vams else ("<20" if len(vams) < 20 else ">=20")))
    return vs, len(vams)


def run_case(case):
    from ..vclock import VClock
    base = 1_700_000_000.0 - (fac.its_ms_of_iso(1_700_000_000.0) % 65536) / 1000.0 + 65.536 * 2
    clock = VClock(base + case["t0_ms"] / 1000.0)
    labels = set()
    try:
        if case["svc"] == "cam":
            vs, n = run_cam(case, clock, labels)
        else:
            vs, n = run_vam(case, clock, labels, case["svc"] == "vam_cluster")
        if case["rate_hz"] > 10:
            labels.add("rate>10Hz")
        if any(s["kind"] == "turn" for s in case["segments"]) and case["heading0"] > 350:
            labels.add("heading-wrap")
        nt = bool(labels & {"restart", "heading-wrap", "gdt-wrap", "rate>10Hz"}) or (n >= 20 and "dynamics+timeout" in labels)
        return Outcome(vs, labels=sorted(labels) + ["svc:" + case["svc"]], nontrivial=nt)
    finally:
        clock.uninstall()


def job(n, seed, max_segments=10):
    return core.hyp_run(case_s(max_segments), run_case, n=n, seed=seed, kind="trajectory")


def jobs(tier, seed):
    if tier == "quick":
        return [{"fn": "vf.props.c10:job", "args": {"n": 60, "seed": seed * 1000 + s}} for s in range(16)]
    js = [{"fn": "vf.props.c10:job", "args": {"n": 600, "seed": seed * 1000 + s}} for s in range(12)]
    js += [{"fn": "vf.props.c10:job", "args": {"n": 12, "seed": seed * 1000 + 50 + s, "max_segments": 1200}} for s in range(4)]   # hours of virtual time
    return js


def replay(kind, case):
    return run_case(case)

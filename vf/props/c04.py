"""C04 - No received frame can stop or derail the receive path.

Frame streams valid* bad valid* are fed through the REAL RawLinkLayer.receive() loop (scripted
socket) of a full station (GN + BTP routers, CA / DEN / VRU reception, optional LDM, security
off / on) and, differentially, the same stream without the bad frames to a twin station."""
from __future__ import annotations

import threading
import types

from hypothesis import strategies as st

from .. import core, fac, pki, refcodec as rc
from ..core import Outcome, violation, H, B

ID = "C04"
RULE = ("Streams of 3..14 Ethernet frames: valid GN traffic (beacon, SHB with CAM / VAM, GBC with DENM, TSB, GUC to the station, LS request, "
        "all from two fixed sources; with security on: genuine secured CAM / DENM from real signing stations) interleaved with bad frames from "
        "five generators: (i) random bytes 0..1500; (ii) grammar-based on the GN layout with illegal values (version, NH 3..15, HT 7..15, HST "
        "out of enum, station type 13..31, RHL > MHL, zero-sized areas, truncation at every header boundary +-1, PL != actual); (iii) "
        "mutations (bit flips, truncations, splices) of valid unsecured and secured packets from other sources (unparsable envelopes, "
        "unsupported hashId / signature choices, certificate lists of length 0/2/3); (iv) well-formed GN+BTP to ports 2001/2002/2018 with "
        "undecodable or odd facility payloads; (v) 'shadow' frames: certainly malformed variants (version, RHL > MHL, zero area, truncated header, reserved HT/HST) of a "
        "sequence-numbered frame that a VALID source sends later in the stream; plus Ethernet framing cases (own MAC as source, other unicast destination). The stream runs "
        "through the real RawLinkLayer.receive() thread on a scripted socket or (1 case in 4) the real PythonCV2XLinkLayer.callback_handler_loop on a scripted queue. Oracle: (1) the loop consumes every scripted frame and ends only "
        "through the scripted OSError (raw) / stop signal (C-V2X), no exception escapes; (2) differential against a twin station fed only the valid frames: identical "
        "facility handler invocations, location-table entries of the valid sources, LDM objects and trust store; (3) own-MAC-source / "
        "foreign-unicast frames cause no router call. Non-trivial = bad frame that reaches at least the common-header decoder and is followed "
        "by a valid frame.")
ASSUMPTIONS = [
    "bad frames carry source addresses disjoint from the valid sources (a mutated packet that still is a valid packet of a valid source would legitimately change state) - except the 'shadow' generator, whose frames claim a valid source and the sequence number of a frame that source sends later, and are malformed in a way that obliges every receiver to discard them (version, RHL > MHL, zero-sized area, truncated header, reserved HT / HST)",
    "the C-V2X link layer's vendor library does not load in this sandbox: the real PythonCV2XLinkLayer.callback_handler_loop is run on an instance created without __init__ (no vendor process) and a scripted queue; receive_process (the vendor side of the queue) is not exercised",
    "forwarding output is not compared (a GN-valid packet with a bad facility payload legitimately creates a neighbour entry)",
]

OWN_MAC = b"\x02\x00\x00\x00\x00\x01"
VSRC = [b"\x02\x00\x00\xaa\xaa\x01", b"\x02\x00\x00\x55\x55\x02"]
BSRC = b"\x02\x00\x00\x0f\xf0\x33"
EGO = (413000000, 21000000)


# ---- scripted socket -----------------------------------------------------------------------------
class ScriptedSocket:
    def __init__(self, frames, gate):
        self.frames = list(frames)
        self.i = 0
        self.gate = gate
        self.sent = []

    def bind(self, addr):
        pass

    def recv(self, n):
        self.gate.wait()
        if self.i >= len(self.frames):
            raise OSError("scripted end of stream")
        f = self.frames[self.i]
        self.i += 1
        return f[:n]

    def send(self, data):
        self.sent.append(bytes(data))
        return len(data)

    def close(self):
        pass


def socket_shim(sock):
    import socket as real
    shim = types.ModuleType("socket")
    for k in ("AF_PACKET", "SOCK_RAW", "htons"):
        setattr(shim, k, getattr(real, k, 0) if k != "htons" else real.htons)
    shim.socket = lambda *a, **k: sock
    return shim


# ---- payload / frame builders --------------------------------------------------------------------
_PAY = {}


def payloads():
    """Valid facility payloads (encoded once per process)."""
    if _PAY:
        return _PAY
    from flexstack.facilities.ca_basic_service.cam_transmission_management import CooperativeAwarenessMessage
    from flexstack.facilities.vru_awareness_service.vam_transmission_management import VAMMessage
    from flexstack.facilities.decentralized_environmental_notification_service.denm_transmission_management import DecentralizedEnvironmentalNotificationMessage
    for sid in (7001, 7002, 7099):
        cam = CooperativeAwarenessMessage.generate_white_cam_static()
        cam["header"]["stationId"] = sid
        cam["cam"]["camParameters"]["basicContainer"]["referencePosition"].update(latitude=413001000, longitude=21001000)
        _PAY[("cam", sid)] = fac.coder("cam").encode(cam)
        vam = VAMMessage.generate_white_vam_static()
        vam["header"]["stationId"] = sid
        vam["vam"]["vamParameters"]["basicContainer"]["referencePosition"].update(latitude=413002000, longitude=21002000)
        _PAY[("vam", sid)] = fac.coder("vam").encode(vam)
        d = DecentralizedEnvironmentalNotificationMessage().denm
        d["header"]["stationId"] = sid
        d["denm"]["management"]["actionId"]["originatingStationId"] = sid
        d["denm"]["management"]["eventPosition"].update(latitude=413003000, longitude=21003000)
        _PAY[("denm", sid)] = fac.coder("denm").encode(d)
    return _PAY


def eth(payload, src, dst=b"\xff" * 6):
    return dst + src + b"\x89\x47" + payload


def valid_frame(spec, now, secured_pool=None):
    """spec: dict(kind, src 0|1, n) -> GN packet bytes (without Ethernet header)."""
    from ..stack import addr_bytes
    from ..vclock import tst32
    s = spec["src"]
    mid = VSRC[s] if s < 2 else BSRC            # src 2 = the bad-frame source (station id 7099)
    so = {"addr": addr_bytes(mid), "tst": tst32(now), "lat": EGO[0] + 1500 * (s + 1), "lon": EGO[1] - 900 * (s + 1), "pai": 1, "speed": 300, "heading": 450}
    sid = 7001 + s if s < 2 else 7099
    k = spec["kind"]
    P = payloads()
    area = {"lat": EGO[0], "lon": EGO[1], "a": 900, "b": 600, "angle": 0, "shape": 0}
    if k == "beacon":
        return rc.build_packet("beacon", so=so)
    if k == "cam":
        return rc.build_packet("shb", so=so, payload=rc.build_btp(2001, 0) + P[("cam", sid)])
    if k == "vam":
        return rc.build_packet("shb", so=so, payload=rc.build_btp(2018, 0) + P[("vam", sid)])
    if k == "denm":
        return rc.build_packet("gbc", so=so, sn=spec["n"] + 100 * s, rhl=3, mhl=3, area=area, payload=rc.build_btp(2002, 0) + P[("denm", sid)])
    if k == "tsb":
        return rc.build_packet("tsb", so=so, sn=spec["n"] + 100 * s + 50, rhl=2, mhl=2, payload=rc.build_btp(2001, 0) + P[("cam", sid)])
    if k == "guc":
        de = {"addr": addr_bytes(OWN_MAC), "tst": tst32(now), "lat": EGO[0], "lon": EGO[1]}
        return rc.build_packet("guc", so=so, sn=spec["n"] + 100 * s + 70, rhl=2, mhl=2, de=de, payload=rc.build_btp(2001, 0) + P[("cam", sid)])
    if k == "lsreq":
        return rc.build_packet("lsreq", so=so, sn=spec["n"] + 100 * s + 90, rhl=2, mhl=2, req_addr=addr_bytes(b"\x02\x00\x00\x00\x12\x34"))
    raise ValueError(k)


SHADOW_WHATS = ["version", "rhl_gt_mhl", "zero_area", "trunc", "ht", "hst"]


def shadow_frame(valid_pkt, what, x):
    """A certainly malformed variant of a frame that a VALID source sends later in the stream: same source, same sequence
    number.  A receiver has to discard it without recording anything, so that the genuine frame is still accepted."""
    pkt = bytearray(valid_pkt)
    ht = pkt[5] >> 4
    if what == "zero_area" and ht not in (rc.HT_GBC, rc.HT_GAC):
        what = "rhl_gt_mhl"
    if what == "version":
        v = x % 16
        pkt[0] = ((2 if v == 1 else v) << 4) | (pkt[0] & 15)
    elif what == "rhl_gt_mhl":
        pkt[3] = min(255, pkt[10] + 1 + x % 50)
    elif what == "zero_area":
        pkt[48:50] = b"\x00\x00"                       # distance a
        if x % 2:
            pkt[50:52] = b"\x00\x00"                   # distance b
    elif what == "trunc":
        ext = rc.ext_len(ht, pkt[5] & 15) or 4
        return bytes(pkt[:12 + x % ext]) if x % 5 else bytes(pkt[:x % 12])
    elif what == "ht":
        pkt[5] = ((7 + x % 9) << 4) | (pkt[5] & 15)
    elif what == "hst":
        pkt[5] = (pkt[5] & 0xF0) | (3 + x % 13)
    return bytes(pkt)


def bad_frame(spec, now, secured_pool):
    """Returns GN packet bytes for a bad-frame spec."""
    from ..stack import addr_bytes
    from ..vclock import tst32
    g = spec["gen"]
    so = {"addr": rc.build_addr(0, spec.get("st", 5), BSRC), "tst": tst32(now), "lat": EGO[0] + 700, "lon": EGO[1] + 700, "pai": 1}
    P = payloads()
    area = {"lat": EGO[0], "lon": EGO[1], "a": 900, "b": 600, "angle": 0, "shape": 0}
    if g == "random":
        return B(spec["bytes"])
    if g == "grammar":
        w = spec["what"]
        base_kind = spec["kind"]
        kw = dict(so=so, sn=spec["x"] % 65536, rhl=2, mhl=2, payload=rc.build_btp(2001, 0) + P[("cam", 7099)], area=area,
                  de={"addr": addr_bytes(OWN_MAC), "tst": 0, "lat": EGO[0], "lon": EGO[1]}, req_addr=addr_bytes(OWN_MAC))
        if base_kind in ("beacon", "lsreq", "lsrep"):
            kw["payload"] = b""
        if w == "version":
            kw["version"] = spec["x"] % 16
        elif w == "basic_nh":
            kw["bnh"] = 3 + spec["x"] % 13
        elif w == "basic_nh_any":
            kw["bnh"] = 0
        elif w == "common_nh":
            kw["nh"] = spec["x"] % 16
        elif w == "ht":
            pkt = bytearray(rc.build_packet(base_kind, **kw))
            pkt[5] = ((7 + spec["x"] % 9) << 4) | (pkt[5] & 15)
            return bytes(pkt)
        elif w == "ht_any":
            pkt = bytearray(rc.build_packet(base_kind, **kw))
            pkt[5] = pkt[5] & 15
            return bytes(pkt)
        elif w == "hst":
            kw["hst"] = 3 + spec["x"] % 13
        elif w == "st":
            kw["so"] = dict(so, addr=rc.build_addr(spec["x"] % 2, 13 + spec["x"] % 19, BSRC))
        elif w == "rhl_gt_mhl":
            kw["rhl"], kw["mhl"] = 200, spec["x"] % 200
        elif w == "zero_area":
            kw["area"] = dict(area, a=0 if spec["x"] % 2 else 5, b=0, shape=spec["x"] % 3)
            base_kind = "gbc" if spec["x"] % 4 < 2 else "gac"
        elif w == "pl":
            kw["pl"] = spec["x"] % 65536
        elif w == "reserved":
            kw["reserved1"], kw["reserved2"], kw["breserved"] = spec["x"] % 16, spec["x"] % 256, (spec["x"] >> 3) % 256
        pkt = rc.build_packet(base_kind, **kw)
        if w == "trunc":
            bounds = [0, 1, 3, 4, 5, 11, 12, 13, 35, 36, 37, 39, 40, 41, 55, 56, 57, 59, 60, 61]
            return pkt[:bounds[spec["x"] % len(bounds)]]
        return pkt
    if g == "mutate":
        pool = secured_pool if (spec["secured"] and secured_pool) else None
        if pool:
            base = pool[spec["x"] % len(pool)]
        else:
            kinds = ["cam", "vam", "denm", "tsb", "guc", "lsreq", "beacon"]
            base = valid_frame({"kind": kinds[spec["x"] % len(kinds)], "src": 2, "n": 5}, now)
        m = spec["m"]
        n = len(base)
        if m == "bitflip":
            i = (spec["pos"] * n) // 1000
            i = min(i, n - 1)
            return base[:i] + bytes([base[i] ^ (1 << (spec["x"] % 8))]) + base[i + 1:]
        if m == "trunc":
            return base[:(spec["pos"] * n) // 1000]
        if m == "splice":
            other = valid_frame({"kind": "denm", "src": 2, "n": 9}, now)
            i = (spec["pos"] * n) // 1000
            return base[:i] + other[i // 2:]
        if m == "extend":
            return base + bytes([spec["x"] % 256]) * (1 + spec["x"] % 40)
        return base
    if g == "envelope":
        # secured envelopes that do not parse / name unsupported algorithms / odd certificate lists
        inner = rc.build_packet("shb", so=so, payload=rc.build_btp(2001, 0) + P[("cam", 7099)])[4:]
        z = pki.Zoo.get()
        hi = {"psid": 36, "generationTime": int((now - pki.ITS_EPOCH + pki.LEAP) * 1e6)}
        tbs = {"payload": {"data": {"protocolVersion": 3, "content": ("unsecuredData", inner)}}, "headerInfo": hi}
        w = spec["what"]
        signer = ("certificate", [z.evil_at.certificate])
        hash_id = "sha256"
        sig = pki.raw_sign(z.sk(z.evil_at), pki.coder().encode_to_be_signed_data(tbs))
        if w == "sha384":
            hash_id = "sha384"
        elif w == "chain0":
            signer = ("certificate", [])
        elif w == "chain2":
            signer = ("certificate", [z.evil_at.certificate, z.evil_aa.certificate])
        elif w == "chain3":
            signer = ("certificate", [z.evil_at.certificate, z.evil_aa.certificate, z.evil_root.certificate])
        elif w == "self_signer":
            signer = ("self", None)
        elif w == "brainpool_sig":
            sig = ("ecdsaBrainpoolP256r1Signature", {"rSig": ("x-only", b"\x01" * 32), "sSig": b"\x02" * 32})
        elif w == "compressed_r":
            sig = ("ecdsaNistP256Signature", {"rSig": ("compressed-y-0", b"\x01" * 32), "sSig": b"\x02" * 32})
        elif w == "digest_unknown":
            signer = ("digest", b"\x11" * 8)
        sd = {"protocolVersion": 3, "content": ("signedData", {"hashId": hash_id, "tbsData": tbs, "signer": signer, "signature": sig})}
        if w == "encrypted":
            sd = {"protocolVersion": 3, "content": ("unsecuredData", inner)}
        try:
            sec = pki.coder().encode_etsi_ts_103097_data_signed(sd)
        except Exception:
            sec = b"\x03\x81\x00" + inner
        if w == "garbage":
            sec = B(spec.get("bytes", "00")) or b"\x00"
        return rc.build_basic(1, rc.NH_SECURED, 0, 0x1A, 1) + sec
    if g == "facility":
        port = [2001, 2002, 2018][spec["x"] % 3]
        w = spec["what"]
        good = P[({2001: "cam", 2002: "denm", 2018: "vam"}[port], 7099)]
        if w == "empty":
            pl = b""
        elif w == "random":
            pl = B(spec["bytes"])
        elif w == "truncated":
            pl = good[:max(0, (spec["pos"] * len(good)) // 1000)]
        elif w == "bitflip":
            i = min(len(good) - 1, (spec["pos"] * len(good)) // 1000)
            pl = good[:i] + bytes([good[i] ^ (1 << (spec["x"] % 8))]) + good[i + 1:]
        elif w == "wrong_type":
            pl = P[("vam" if port != 2018 else "cam", 7099)]
        elif w == "btp_short":
            return rc.build_packet("shb", so=so, payload=b"\x07")
        else:
            pl = good + b"\xff" * 9
        if spec["x"] % 2:
            return rc.build_packet("gbc", so=so, sn=spec["x"] % 65536, rhl=2, mhl=2, area=area, payload=rc.build_btp(port, 0) + pl)
        return rc.build_packet("shb", so=so, payload=rc.build_btp(port, 0) + pl, nh=rc.CNH_BTPB if spec["x"] % 3 else rc.CNH_BTPA)
    raise ValueError(g)


# ---- strategies ------------------------------------------------------------------------------------
def bad_s():
    small_bytes = st.binary(max_size=64).map(H)
    big_bytes = st.integers(0, 1500).flatmap(lambda n: st.binary(min_size=n, max_size=n)).map(H)
    x = st.integers(0, 10**6)
    pos = st.integers(0, 999)
    return st.one_of(
        st.fixed_dictionaries({"gen": st.just("random"), "bytes": st.one_of(small_bytes, small_bytes, big_bytes)}),
        st.fixed_dictionaries({"gen": st.just("grammar"), "what": st.sampled_from(["version", "basic_nh", "basic_nh_any", "common_nh", "ht", "ht_any", "hst", "st", "rhl_gt_mhl", "zero_area", "pl", "trunc", "reserved"]),
                               "kind": st.sampled_from(["beacon", "shb", "tsb", "gbc", "gac", "guc", "lsreq", "lsrep"]), "x": x}),
        st.fixed_dictionaries({"gen": st.just("grammar"), "what": st.sampled_from(["version", "basic_nh", "basic_nh_any", "common_nh", "ht", "ht_any", "hst", "st", "rhl_gt_mhl", "zero_area", "pl", "trunc", "reserved"]),
                               "kind": st.sampled_from(["beacon", "shb", "tsb", "gbc", "gac", "guc", "lsreq", "lsrep"]), "x": x}),
        st.fixed_dictionaries({"gen": st.just("shadow"), "what": st.sampled_from(SHADOW_WHATS), "x": x}),
        st.fixed_dictionaries({"gen": st.just("mutate"), "secured": st.booleans(), "m": st.sampled_from(["bitflip", "bitflip", "trunc", "splice", "extend"]), "pos": pos, "x": x}),
        st.fixed_dictionaries({"gen": st.just("envelope"), "what": st.sampled_from(["sha384", "chain0", "chain2", "chain3", "self_signer", "brainpool_sig", "compressed_r", "digest_unknown", "encrypted", "garbage", "plain"]),
                               "bytes": small_bytes}),
        st.fixed_dictionaries({"gen": st.just("facility"), "what": st.sampled_from(["empty", "random", "truncated", "bitflip", "wrong_type", "btp_short", "trailing"]), "bytes": small_bytes, "pos": pos, "x": x}),
    )


def item_s():
    valid = st.fixed_dictionaries({"t": st.just("valid"), "kind": st.sampled_from(["beacon", "cam", "cam", "vam", "denm", "tsb", "guc", "lsreq"]), "src": st.integers(0, 1)})
    bad = st.fixed_dictionaries({"t": st.just("bad"), "spec": bad_s()})
    framing = st.fixed_dictionaries({"t": st.just("framing"), "how": st.sampled_from(["own_src_bcast", "own_src_unicast", "other_unicast"]), "kind": st.sampled_from(["cam", "denm", "beacon"])})
    return st.one_of(valid, valid, bad, bad, bad, framing)


def case_s():
    return st.fixed_dictionaries({"security": st.sampled_from([False, False, True]), "ldm": st.booleans(),
                                  "loop": st.sampled_from(["raw", "raw", "raw", "cv2x"]),
                                  "stream": st.lists(item_s(), min_size=3, max_size=14)})


# ---- the C-V2X link layer's callback loop on a scripted queue ------------------------------------------
class ScriptedQueue:
    """Stands in for the multiprocessing.Queue between the vendor receive process and callback_handler_loop."""

    def __init__(self, packets, gate):
        self.packets = list(packets)
        self.i = 0
        self.gate = gate

    def get(self):
        self.gate.wait()
        if self.i >= len(self.packets):
            return None                     # the stop signal PythonCV2XLinkLayer.stop() sends
        p = self.packets[self.i]
        self.i += 1
        return p


def cv2x_module():
    """flexstack.linklayer.cv2x_link_layer with the vendor binding (which cannot be loaded here) replaced by a stub module."""
    import importlib
    import sys
    name = "flexstack.linklayer.cv2xlinklayer"
    if name not in sys.modules:
        m = types.ModuleType(name)

        class CV2XLinkLayer:
            def __init__(self):
                self.sent = []

            def send(self, data):
                self.sent.append(bytes(data))

            def receive(self):
                return b""
        m.CV2XLinkLayer = CV2XLinkLayer
        sys.modules[name] = m
    return importlib.import_module("flexstack.linklayer.cv2x_link_layer")


# ---- the station under test --------------------------------------------------------------------------
class FullStation:
    def __init__(self, clock, security, with_ldm, frames, loop="raw"):
        from flexstack.btp.router import Router as BTPRouter
        from flexstack.geonet import router as grm
        from flexstack.geonet.mib import MIB, AreaForwardingAlgorithm, GnSecurity
        from flexstack.facilities.ca_basic_service.cam_reception_management import CAMReceptionManagement
        from flexstack.facilities.ca_basic_service.cam_ldm_adaptation import CABasicServiceLDM
        from flexstack.facilities.decentralized_environmental_notification_service.denm_reception_management import DENMReceptionManagement
        from flexstack.facilities.vru_awareness_service.vam_reception_management import VAMReceptionManagement
        from flexstack.facilities.vru_awareness_service.vam_ldm_adaptation import VRUBasicServiceLDM
        from flexstack.facilities.vru_awareness_service.vru_clustering import VBSClusteringManager
        from flexstack.facilities.local_dynamic_map.factory import LDMFactory
        from flexstack.facilities.local_dynamic_map.ldm_classes import AccessPermission, Location
        from flexstack.linklayer import raw_link_layer as rll
        from ..stack import make_addr
        self.clock = clock
        kw = dict(itsGnLocalGnAddr=make_addr(OWN_MAC), itsGnBeaconServiceRetransmitTimer=0, itsGnAreaForwardingAlgorithm=AreaForwardingAlgorithm.SIMPLE, itsGnMaxPacketDataRate=10**9)
        sign = ver = None
        self.lib = None
        if security:
            z = pki.Zoo.get()
            self.lib, sign, ver = z.station_security(z.ats[3])
            kw["itsGnSecurity"] = GnSecurity.ENABLED
        self.gn = grm.Router(MIB(**kw), sign_service=sign, verify_service=ver)
        from flexstack.geonet.position_vector import LongPositionVector, TST
        from ..vclock import tst32
        self.gn.ego_position_vector = LongPositionVector(gn_addr=make_addr(OWN_MAC), tst=TST(msec=tst32(clock.now)), latitude=EGO[0], longitude=EGO[1], pai=True)
        self.btp = BTPRouter(self.gn)
        self.ldm = LDMFactory().create_ldm(Location.initializer(latitude=EGO[0] + 5_000_000, longitude=EGO[1]), "Reactive", "Reactive", "Dictionary") if with_ldm else None
        self.calls = []       # (port, payload hex, source mid hex)
        self.router_calls = 0
        cam_ldm = CABasicServiceLDM(self.ldm, (AccessPermission.CAM,), 5) if self.ldm else None
        vam_ldm = VRUBasicServiceLDM(self.ldm, (AccessPermission.VAM,), 5) if self.ldm else None
        self.cam_rx = CAMReceptionManagement(fac.coder("cam"), self.btp, cam_ldm)
        self.den_rx = DENMReceptionManagement(fac.coder("denm"), self.btp, self.ldm)
        self.cluster = VBSClusteringManager(own_station_id=1, time_fn=lambda: clock.now)
        self.vam_rx = VAMReceptionManagement(fac.coder("vam"), self.btp, vam_ldm, self.cluster)
        self.app_cams = []
        self.cam_rx.add_application_callback(lambda cam: self.app_cams.append(cam["header"]["stationId"]))
        for port, cb in list(self.btp.pre_indication_callbacks.items()):
            self.btp.pre_indication_callbacks[port] = self._wrap(port, cb)
        self.btp.freeze_callbacks()
        self.gn.register_indication_callback(self.btp.btp_data_indication)
        orig = self.gn.gn_data_indicate

        def counted(pkt, orig=orig):
            self.router_calls += 1
            return orig(pkt)
        self.gate = threading.Event()
        if loop == "cv2x":
            # the real callback_handler_loop of the C-V2X link layer, on an instance built without the vendor process / queue
            cll = cv2x_module()
            self.sock = ScriptedQueue([f[14:] for f in frames], self.gate)
            self.ll = object.__new__(cll.PythonCV2XLinkLayer)
            self.ll.receive_callback = counted
            self.ll.link_layer = cll.CV2XLinkLayer()
            self.ll.receiving_thread = threading.Thread(target=self.ll.callback_handler_loop, args=(self.sock,), daemon=True)
            self.ll.receiving_thread.start()
            self.gn.link_layer = self.ll
            return
        self.sock = ScriptedSocket(frames, self.gate)
        self._saved_socket = rll.socket
        rll.socket = socket_shim(self.sock)
        try:
            self.ll = rll.RawLinkLayer("vf0", OWN_MAC, counted)
        finally:
            rll.socket = self._saved_socket
        self.gn.link_layer = self.ll

    def _wrap(self, port, cb):
        def wrapped(ind, port=port, cb=cb):
            self.calls.append((port, bytes(ind.data).hex(), ind.gn_source_position_vector.gn_addr.mid.mid.hex()))
            return cb(ind)
        return wrapped

    def run(self, timeout=90.0):
        self.gate.set()
        self.ll.receiving_thread.join(timeout)
        return not self.ll.receiving_thread.is_alive()

    def snapshot(self):
        from ..stack import make_addr
        snap = {"calls": [c for c in self.calls if bytes.fromhex(c[2]) in VSRC], "app_cams": [s for s in self.app_cams if s in (7001, 7002)]}
        loct = {}
        for i, m in enumerate(VSRC):
            e = self.gn.location_table.get_entry(make_addr(m))
            loct[i] = None if e is None else (e.position_vector.tst.msec, e.position_vector.latitude, e.position_vector.longitude, e.is_neighbour)
        snap["loct"] = loct
        if self.ldm is not None:
            objs = []
            for rec in self.ldm.ldm_maintenance.get_all_data_containers():
                sid = (rec.get("dataObject", {}).get("header") or {}).get("stationId")
                if sid in (7001, 7002):
                    objs.append(core.jdump({k: rec["dataObject"][k] for k in rec["dataObject"] if k != "utc_timestamp"}))
            snap["ldm"] = sorted(objs)
        if self.lib is not None:
            z = pki.Zoo.get()
            third = pki.hashedid8(z.ats[2].certificate)     # the genuine station whose packets feed the mutation pool: learning its ticket is legitimate
            snap["trust"] = (sorted(k.hex() for k in self.lib.known_authorization_tickets if k != third), sorted(k.hex() for k in self.lib.known_authorization_authorities),
                             sorted(k.hex() for k in self.lib.known_root_certificates))
        snap["cluster_nearby"] = sorted(k for k in self.cluster._nearby_vrus if k in (7001, 7002))
        return snap


_SEC_POOL = {}


def secured_pool(clock):
    """Genuine secured packets of two real signing stations (valid pool) and of a third one (mutation pool)."""
    from flexstack.geonet import router as gr, location_table as ltm
    from flexstack.security import sign_service as ss
    from ..stack import Ether, secured_request, secured_station
    if "pool" in _SEC_POOL:
        return _SEC_POOL["pool"]
    z = pki.Zoo.get()
    eth_ = Ether()
    out = {"valid": {}, "mut": []}
    _SEC_POOL["pool"] = out
    P = payloads()
    for i, (mid, at) in enumerate(((VSRC[0], z.ats[0]), (VSRC[1], z.ats[1]), (BSRC, z.ats[2]))):
        s = secured_station(eth_, mid, at)
        s.set_position(clock.now, EGO[0] + 1500 * (i + 1), EGO[1] - 900 * (i + 1))
        sid = 7001 + i if i < 2 else 7099
        for kind in ("cam", "denm", "cam"):
            n = len(eth_.log)
            req = secured_request(kind, P[(kind, sid)])
            s.call(s.gn.gn_data_request, req)
            frames = [p for (x, p) in eth_.log[n:] if x == s.index]
            if i < 2:
                out["valid"].setdefault((kind, i), []).append(frames[0])
            else:
                out["mut"].append(frames[0])
    return out


def run_case(case):
    from flexstack.geonet import router as gr, location_table as ltm
    from flexstack.security import sign_service as ss
    import flexstack.facilities.local_dynamic_map.ldm_maintenance as lm
    import flexstack.facilities.local_dynamic_map.ldm_maintenance_reactive as lmr
    import flexstack.facilities.local_dynamic_map.ldm_service_reactive as lsr
    import flexstack.facilities.ca_basic_service.cam_reception_management as crm
    import flexstack.facilities.vru_awareness_service.vam_reception_management as vrm
    from ..vclock import VClock

    clock = VClock(pki.T0)
    clock.install([gr, ltm, ss, lm, lmr, lsr, crm, vrm])
    vs = []
    labels = set()
    died = []
    old_hook = threading.excepthook
    threading.excepthook = lambda args: died.append((args.exc_type.__name__, str(args.exc_value)[:200]))
    try:
        sec = case["security"]
        pool = secured_pool(clock) if sec else {"valid": {}, "mut": []}
        frames_all, frames_valid = [], []
        meta = []
        used = {}
        loop = case.get("loop", "raw")
        for i, it in enumerate(case["stream"]):
            if it["t"] == "framing" and loop == "cv2x":
                continue                    # no Ethernet framing (and no MAC filter) on the C-V2X path
            if it["t"] == "valid":
                if sec:
                    kind = it["kind"] if it["kind"] in ("cam", "denm") else "cam"
                    lst = pool["valid"].get((kind, it["src"]), [])
                    j = used.get((kind, it["src"]), 0)
                    if j >= len(lst):
                        continue
                    used[(kind, it["src"])] = j + 1
                    pkt = lst[j]
                else:
                    pkt = valid_frame({"kind": it["kind"], "src": it["src"], "n": i}, clock.now)
                f = eth(pkt, VSRC[it["src"]])
                frames_all.append(f)
                frames_valid.append(f)
                meta.append("valid")
            elif it["t"] == "bad" and it["spec"]["gen"] == "shadow":
                # malformed twin of the next sequence-numbered frame of a valid source (unsecured streams)
                nxt = next(((j, v) for j, v in enumerate(case["stream"]) if j > i and v["t"] == "valid" and v["kind"] in ("denm", "tsb", "guc", "lsreq")), None)
                if sec or nxt is None:
                    continue
                j, v = nxt
                pkt = shadow_frame(valid_frame({"kind": v["kind"], "src": v["src"], "n": j}, clock.now), it["spec"]["what"], it["spec"]["x"])
                frames_all.append(eth(pkt, VSRC[v["src"]]))
                meta.append("bad:shadow:" + it["spec"]["what"])
            elif it["t"] == "bad":
                try:
                    pkt = bad_frame(it["spec"], clock.now, pool["mut"])
                except Exception as e:
                    vs.append(violation(ID, "C04/harness-bad-frame-builder", "builder failed for %r: %r" % (it["spec"], e)))
                    continue
                frames_all.append(eth(pkt, BSRC))
                meta.append("bad:" + it["spec"]["gen"] + ":" + str(it["spec"].get("what", it["spec"].get("m", ""))))
            else:
                pkt = valid_frame({"kind": it["kind"], "src": 0, "n": 40 + i}, clock.now) if not sec else (pool["valid"].get(("cam", 0)) or [b""])[0]
                if it["how"] == "own_src_bcast":
                    frames_all.append(eth(pkt, OWN_MAC))
                elif it["how"] == "own_src_unicast":
                    frames_all.append(eth(pkt, OWN_MAC, OWN_MAC))
                else:
                    frames_all.append(eth(pkt, BSRC, b"\x02\x00\x00\x00\x77\x01"))
                meta.append("framing:" + it["how"])
        n_framing = sum(1 for m in meta if m.startswith("framing"))
        n_bad = sum(1 for m in meta if m.startswith("bad"))
        for m in meta:
            if m.startswith("bad"):
                labels.add(m)
        x = FullStation(clock, sec, case["ldm"], frames_valid, loop)
        okx = x.run()
        y = FullStation(clock, sec, case["ldm"], frames_all, loop)
        oky = y.run()
        if died:
            vs.append(violation(ID, "C04/receive-thread-died:%s" % died[0][0], "the receiving thread terminated with %s: %s (stream %r)" % (died[0][0], died[0][1], meta)))
        if not okx or not oky:
            vs.append(violation(ID, "C04/receive-loop-hangs", "receive loop did not finish the scripted stream (%d/%d frames consumed)" % (y.sock.i, len(frames_all))))
        if y.sock.i != len(frames_all):
            vs.append(violation(ID, "C04/receive-loop-stopped-early", "%d of %d frames consumed (stream %r)" % (y.sock.i, len(frames_all), meta)))
        if y.router_calls != len(frames_all) - n_framing:
            vs.append(violation(ID, "C04/framing-filter-wrong", "%d frames handed to GeoNetworking, expected %d (own-source / foreign-unicast frames must be ignored); stream %r" % (y.router_calls, len(frames_all) - n_framing, meta)))
        sx, sy = x.snapshot(), y.snapshot()
        for key in sx:
            if sx[key] != sy[key]:
                vs.append(violation(ID, "C04/valid-traffic-processed-differently:%s" % key, "%s differs after bad frames %r: without %r, with %r" % (
                    key, [m for m in meta if not m == "valid"], str(sx[key])[:300], str(sy[key])[:300])))
        reached = y.router_calls > 0 and n_bad > 0
        last_bad = max((i for i, m in enumerate(meta) if m.startswith("bad")), default=-1)
        nt = n_bad > 0 and any(m == "valid" for m in meta[last_bad + 1:]) or (n_bad > 0 and any(m == "valid" for m in meta))
        if sx["calls"]:
            labels.add("valid-deliveries")
        return Outcome(vs, labels=sorted(labels) + ["security:%s" % sec, "loop:%s" % loop], nontrivial=bool(nt and reached))
    finally:
        threading.excepthook = old_hook
        clock.uninstall()


def job(n, seed):
    return core.hyp_run(case_s(), run_case, n=n, seed=seed, kind="stream")


def _fuzz_outcome(data):
    from .. import fuzz_c04
    vs, labels, nt, excl = fuzz_c04.fuzz_one(data)
    return Outcome([violation(ID, sig, msg) for sig, msg in vs], labels=["fuzz:" + l for l in labels], nontrivial=nt, excluded=excl)


FUZZ_SEEDS = [bytes([0, 1, 0, 40]) + bytes(range(40)), bytes([0, 0, 1, 2, 0, 20, 4, 1, 2, 3, 4, 1]), bytes([1, 2, 2, 4, 0, 2, 60]) + bytes(60) + bytes([0, 3]),
              bytes([0, 0, 3, 0, 2, 0, 7]), bytes([0, 1, 3, 1, 0, 0, 9]), bytes([0, 2, 4, 0, 30]) + bytes(range(30)) + bytes([1, 0, 9]), bytes([2, 3, 3, 0, 3, 0, 1, 3, 1, 4, 0, 5, 1, 1, 8, 1, 1, 1, 1, 1, 1, 1, 1, 0])]


def job_fuzz(idx, seed, runs):
    """One libFuzzer (atheris) campaign over the flexstack package; see vf/fuzz_c04.py.  Even idx: empty corpus, odd: seeded."""
    import json
    import os
    import shutil
    import subprocess
    import sys
    from ..core import Partial
    part = Partial()
    work = os.path.join(core.HOME, ".work", "c04-fuzz", "%d-%d" % (seed, idx))
    shutil.rmtree(work, ignore_errors=True)
    os.makedirs(os.path.join(work, "corpus"))
    if idx % 2:
        for i, sd in enumerate(FUZZ_SEEDS):
            with open(os.path.join(work, "corpus", "seed%d" % i), "wb") as fh:
                fh.write(sd)
    env = dict(os.environ, VF_FUZZ_OUT=os.path.join(work, "out"))
    cmd = [sys.executable, "-m", "vf.fuzz_c04", "-runs=%d" % runs, "-seed=%d" % (seed * 100 + idx + 1), "-max_len=600", "-len_control=0", "-print_final_stats=0",
           "-verbosity=0", os.path.join(work, "corpus")]
    r = subprocess.run(cmd, env=env, stdout=subprocess.DEVNULL, stderr=subprocess.PIPE, cwd=core.HOME)
    try:
        stats = json.load(open(os.path.join(work, "out", "stats.json")))
    except Exception as e:
        part.errors.append("fuzz campaign %d produced no statistics (exit %d): %r %s" % (idx, r.returncode, e, r.stderr.decode(errors="replace")[-600:]))
        return part
    if r.returncode != 0:
        part.errors.append("fuzz campaign %d exited with %d: %s" % (idx, r.returncode, r.stderr.decode(errors="replace")[-600:]))
    part.evaluations += stats["runs"]
    part.nontrivial_extra += stats["nontrivial"]
    for k_, v in stats["labels"].items():
        part.labels["fuzz:" + k_] += v
    for k_, v in stats["excluded"].items():
        part.excluded[k_] += v
    corpus = sorted(os.listdir(os.path.join(work, "corpus")))
    part.subcount("atheris-campaign", campaigns=1, runs=stats["runs"], corpus_entries=len(corpus), seeded_corpus=idx % 2)
    for name in corpus[:2]:
        part.samples.append({"kind": "fuzz", "nontrivial": True, "case": {"data": open(os.path.join(work, "corpus", name), "rb").read().hex()[:400]}})
    vpath = os.path.join(work, "out", "violations.jsonl")
    if os.path.exists(vpath):
        for line in open(vpath):
            v = json.loads(line)
            vv = violation(ID, v["signature"], v["message"], case={"data": v["data"]}, kind="fuzz")
            part.add_violation(vv)
    shutil.rmtree(work, ignore_errors=True)
    return part


def jobs(tier, seed):
    k = 1 if tier == "quick" else 12
    js = [{"fn": "vf.props.c04:job", "args": {"n": 120 * k, "seed": seed * 1000 + s}} for s in range(16)]
    if tier == "quick":
        js += [{"fn": "vf.props.c04:job_fuzz", "args": {"idx": i, "seed": seed, "runs": 1500}} for i in range(2)]
    else:
        js += [{"fn": "vf.props.c04:job_fuzz", "args": {"idx": i, "seed": seed, "runs": 20000}} for i in range(16)]
    return js


def replay(kind, case):
    if kind == "fuzz":
        return _fuzz_outcome(B(case["data"]))
    return run_case(case)

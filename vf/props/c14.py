"""C14 - LDM subscriptions notify exactly the matching data, at the requested cadence."""
from __future__ import annotations

from hypothesis import strategies as st

from .. import core
from ..core import Outcome, violation
from . import c13

ID = "C14"
RULE = ("Histories of 1..60 steps on a real LDM (dictionary back-end, reactive service with its 0.5 s throttle on a virtual clock): register / "
        "deregister 3 consumers, subscribe (type selection, filter from the C13 generator, 0..2 order keys, notify interval 0..5 s, "
        "multiplicity 0..4, plus every invalid parameter class: unknown consumer, type, priority, interval, multiplicity), unsubscribe (own / "
        "unknown id), add objects (reactive attendance), explicit attend_subscriptions(), clock advance. A reference subscription model keyed "
        "by the returned id predicts at every attendance which callbacks fire (matching set non-empty, >= multiplicity, interval elapsed at "
        "one-second resolution since the previous notification) and with exactly which objects in which order; no callback after "
        "unsubscription or deregistration (also when the same consumer registers again at once); invalid requests get the specific result code and create nothing. Non-trivial = history with >= 2 "
        "live subscriptions, >= 1 notification and >= 1 unsubscribe/deregister followed by an attendance with matching data.")
ASSUMPTIONS = [
    "before a subscription's first notification the interval counts from the subscription instant; an attendance earlier than that may or may not notify (no verdict)",
    "identical requests share a subscription id (hash of the request): the model follows the returned ids; the same request subscribed again with the same callback counts as further copies of one subscription (1..copies callbacks per attendance, none after its unsubscription)",
    "objects have long validity and lie outside the maintenance collection radius, so that maintenance does not interfere",
    "order verdict only when every notified object carries every order attribute",
]

CONSUMERS = [2, 16, 3]


EASY = st.fixed_dictionaries({"attr": st.sampled_from(["header.stationId", "header.messageId"]), "op": st.sampled_from([">=", "<=", "!=", "=="]), "ref": st.integers(0, 3)})


def sub_s():
    return st.fixed_dictionaries({
        "op": st.just("sub"), "c": st.sampled_from([2, 2, 2, 16, 16, 3, 7]),
        "types": st.sampled_from([["cam"], ["vam"], ["cam", "vam"], ["cam", "denm", "vam", "poi"], ["denm"]]),
        "f1": st.one_of(st.none(), st.none(), EASY, c13.stmt_s()), "logic": st.sampled_from(["and", "or"]), "f2": st.one_of(st.none(), st.none(), EASY, c13.stmt_s()),
        "order": st.lists(st.tuples(st.sampled_from(["header.stationId", "stationId", "timestamp", "cam.generationDeltaTime", "generationDeltaTime", "header.messageId"]), st.sampled_from(["asc", "desc"])), max_size=2),
        "notify_ms": st.sampled_from([0, 0, 1, 500, 1000, 1000, 2000, 5000]), "mult": st.sampled_from([None, 0, 1, 1, 1, 2, 4]),
        "bad": st.sampled_from([None] * 10 + ["type", "priority", "interval", "multiplicity"]),
        # the callback of this subscription unsubscribes another live subscription of the same consumer when it is invoked
        "kill": st.sampled_from([None] * 6 + [0, 1, 2]),
    })


def case_s():
    unsub = st.fixed_dictionaries({"op": st.just("unsub"), "c": st.sampled_from(CONSUMERS), "ref": st.integers(0, 9), "unknown": st.sampled_from([False, False, False, True])})
    reg = st.fixed_dictionaries({"op": st.just("reg"), "c": st.sampled_from(CONSUMERS)})
    dereg = st.fixed_dictionaries({"op": st.just("dereg"), "c": st.sampled_from(CONSUMERS)})
    add = st.fixed_dictionaries({"op": st.just("add"), "obj": c13.obj_s()})
    attend = st.fixed_dictionaries({"op": st.just("attend")})
    adv = st.fixed_dictionaries({"op": st.just("adv"), "ms": st.sampled_from([0, 100, 499, 500, 999, 1000, 1001, 2000, 5000])})
    dupsub = st.fixed_dictionaries({"op": st.just("dupsub"), "ref": st.integers(0, 9)})
    op = st.one_of(sub_s(), sub_s(), sub_s(), add, add, add, add, attend, attend, attend, adv, adv, adv, unsub, dereg, reg, dupsub)
    pre = [{"op": "reg", "c": 2}, {"op": "reg", "c": 16}, {"op": "reg", "c": 3}]
    good_sub = sub_s().map(lambda d: dict(d, c=2 if d["c"] == 7 else d["c"], bad=None, types=["cam", "denm", "vam", "poi"] if d["f1"] is None else d["types"]))
    block = st.tuples(good_sub, st.lists(add, min_size=1, max_size=4), adv, st.sampled_from(["unsub", "dereg", "none", "none"]), st.lists(add, max_size=2), adv).map(
        lambda t: [t[0]] + t[1] + [t[2], {"op": "attend"}, {"op": "adv", "ms": 1000}, {"op": "attend"}]
        + ([{"op": "unsub", "c": t[0]["c"], "ref": 0, "unknown": False}] if t[3] == "unsub" else ([{"op": "dereg", "c": t[0]["c"]}] if t[3] == "dereg" else []))
        + t[4] + [t[5], {"op": "attend"}])
    # several subscriptions of ONE consumer side by side, the consumer deregisters and registers again before the next attendance
    block2 = st.tuples(st.sampled_from(CONSUMERS), st.lists(good_sub, min_size=2, max_size=4), st.lists(add, min_size=1, max_size=3), st.booleans(), st.sampled_from([0, 1000, 2000])).map(
        lambda t: [dict(x, c=t[0], notify_ms=x["notify_ms"] + 7 * i) for i, x in enumerate(t[1])] + t[2] + [{"op": "dereg", "c": t[0]}] + ([{"op": "reg", "c": t[0]}] if t[3] else [])
        + [{"op": "adv", "ms": t[4]}, {"op": "attend"}, {"op": "adv", "ms": 1000}, {"op": "attend"}])
    # the very same request and callback subscribed twice (one identifier), then unsubscribed once
    block3 = st.tuples(good_sub, st.lists(add, min_size=1, max_size=3), adv).map(
        lambda t: [dict(t[0], notify_ms=0), {"op": "dupsub", "ref": 99}] + t[1] + [t[2], {"op": "attend"}, {"op": "unsub", "c": t[0]["c"], "ref": 99, "unknown": False}] + t[1][:1]
        + [{"op": "adv", "ms": 1000}, {"op": "attend"}])
    single = op.map(lambda x: [x])
    return st.lists(st.one_of(single, single, single, block, block2, block3), min_size=3, max_size=30).map(lambda ll: {"ops": pre + [x for l in ll for x in l][:80]})


def run_case(case):
    from flexstack.facilities.local_dynamic_map.factory import LDMFactory
    from flexstack.facilities.local_dynamic_map.ldm_classes import (AccessPermission, AddDataProviderReq, Circle, ComparisonOperators, DeregisterDataConsumerReq, Filter, FilterStatement,
                                                                    GeometricArea, Location, LogicalOperators, OrderingDirection, OrderTupleValue, RegisterDataConsumerReq,
                                                                    RegisterDataProviderReq, SubscribeDataobjectsReq, SubscribeDataobjectsResult, TimestampIts, TimeValidity,
                                                                    UnsubscribeDataConsumerReq)
    import flexstack.facilities.local_dynamic_map.ldm_maintenance as lm
    import flexstack.facilities.local_dynamic_map.ldm_maintenance_reactive as lmr
    import flexstack.facilities.local_dynamic_map.ldm_service_reactive as lsr
    from ..vclock import VClock, its_ms

    opmap = {"==": ComparisonOperators.EQUAL, "!=": ComparisonOperators.NOT_EQUAL, ">": ComparisonOperators.GREATER_THAN, "<": ComparisonOperators.LESS_THAN,
             ">=": ComparisonOperators.GREATER_THAN_OR_EQUAL, "<=": ComparisonOperators.LESS_THAN_OR_EQUAL, "like": ComparisonOperators.LIKE, "notlike": ComparisonOperators.NOT_LIKE}
    clock = VClock(1_700_000_000.0)
    clock.install([lm, lmr, lsr])
    vs = []
    labels = set()
    try:
        ldm = LDMFactory().create_ldm(Location.initializer(latitude=413000000, longitude=21000000), "Reactive", "Reactive", "Dictionary")
        svc = ldm.ldm_service
        for app in (1, 2, 3, 16):
            ldm.if_ldm_3.register_data_provider(RegisterDataProviderReq(application_id=app, access_permissions=(AccessPermission(app),), time_validity=TimeValidity(100)))
        consumers = set()
        subs = []          # model: dict(id, c, q, notify_ms, mult, last (its ms, truncated s), notified_once, alive, calls(list))
        model_objs = []
        last_reactive = clock.monotonic()      # LDMServiceReactive.last_subscription_time
        fired = []         # (sub index, data_objects) recorded by callbacks since last check
        n_notifications = 0
        removed_then_attended = False
        pending_removed = False

        on_fire = {}       # sub index -> selector of the other subscription of the same consumer that its callback unsubscribes
        killed_now = []    # (position in `fired`, sub index) unsubscribed from inside a callback during the current attendance

        def mk_cb(idx):
            def cb(resp, idx=idx):
                fired.append((idx, resp))
                tgt = None
                if idx in on_fire and subs[idx]["alive"]:
                    mates = [j_ for j_, s2 in enumerate(subs) if s2["alive"] and s2["c"] == subs[idx]["c"] and s2["id"] != subs[idx]["id"]]
                    later = [j_ for j_ in mates if j_ > idx]        # subscribed after this one: attended after it
                    pool = later or mates
                    if pool:
                        tgt = pool[on_fire[idx] % len(pool)]
                if tgt is not None and subs[tgt]["c"] in consumers:
                    r_ = ldm.if_ldm_4.unsubscribe_data_consumer(UnsubscribeDataConsumerReq(application_id=subs[tgt]["c"], subscription_id=subs[tgt]["id"]))
                    if int(r_.result) == 0:
                        labels.add("unsubscribed-from-inside-a-callback")
                        for j_, s2 in enumerate(subs):
                            if s2["alive"] and s2["id"] == subs[tgt]["id"]:
                                s2["alive"] = False
                                s2["dead_why"] = "unsubscription"
                                killed_now.append((len(fired), j_))
            return cb

        def now_its_trunc():
            return its_ms(float(int(clock.now)))

        def attendance(step, why):
            """The implementation has just run attend_subscriptions(): compare what fired."""
            nonlocal n_notifications, removed_then_attended
            cur = now_its_trunc()
            expected = {}
            for i, s_ in enumerate(subs):
                if not s_["alive"]:
                    continue
                match = [m for m in model_objs if c13.matches(m["msg"], s_["q"])]
                if not match:
                    continue
                if s_["mult"] is not None and s_["mult"] > len(match):
                    continue
                due = s_["last"] + s_["notify_ms"] <= cur
                if due:
                    expected[i] = match
                elif not s_["notified_once"]:
                    expected[i] = None          # before the first notification: no verdict
            got = {}
            seen_n = {}
            killed_at = {j_: pos_ for pos_, j_ in killed_now}
            for pos_, (idx, resp) in enumerate(fired):
                if idx in killed_at and pos_ >= killed_at[idx]:
                    vs.append(violation(ID, "C14/callback-after-unsubscription", "step %d (%s): subscription %d was unsubscribed (acknowledged) from inside another callback earlier in this attendance and was still notified" % (step, why, idx)))
                    continue
                if idx in killed_at:
                    continue            # notified before it was unsubscribed in this very attendance: fine, and no further verdict on it
                seen_n[idx] = seen_n.get(idx, 0) + 1
                if seen_n[idx] > subs[idx].get("copies", 1):
                    vs.append(violation(ID, "C14/callback-twice-in-one-attendance", "step %d (%s): subscription %d notified %d times (%d identical subscriptions)" % (step, why, idx, seen_n[idx], subs[idx].get("copies", 1))))
                got[idx] = resp
            del fired[:]
            for j_ in killed_at:
                expected.pop(j_, None)      # whether it was notified before its unsubscription depends on the attendance order: no verdict
            del killed_now[:]
            for idx, resp in got.items():
                s_ = subs[idx]
                if not s_["alive"]:
                    vs.append(violation(ID, "C14/callback-after-%s" % s_["dead_why"], "step %d (%s): callback of subscription %d invoked after %s" % (step, why, idx, s_["dead_why"])))
                    continue
                if idx not in expected:
                    match = [m for m in model_objs if c13.matches(m["msg"], s_["q"])]
                    if not match:
                        why2 = "no-matching-data"
                    elif s_["mult"] is not None and s_["mult"] > len(match):
                        why2 = "below-multiplicity"
                    else:
                        why2 = "interval-not-elapsed"
                    vs.append(violation(ID, "C14/unexpected-notification:%s" % why2, "step %d (%s): subscription %d (interval %d ms, multiplicity %r) notified with %d objects; %d match, last notification %d ms ago" % (
                        step, why, idx, s_["notify_ms"], s_["mult"], len(resp.data_objects), len(match), cur - s_["last"])))
                    continue
                match = expected[idx] if expected[idx] is not None else [m for m in model_objs if c13.matches(m["msg"], s_["q"])]
                g = sorted(c13.canon((x.get("dataObject"), x.get("timestamp"))) for x in resp.data_objects)
                e = sorted(c13.canon((m["msg"], m["ts"])) for m in match)
                if g != e:
                    vs.append(violation(ID, "C14/notification-content-wrong", "step %d (%s): subscription %d notified %d objects, %d match its types and filter" % (step, why, idx, len(g), len(e))))
                elif s_["q"]["order"]:
                    keys = [[c13.key_of(x, a) for a, _ in s_["q"]["order"]] for x in resp.data_objects]
                    if all(k is not c13.MISSING and isinstance(k, (int, float)) and not isinstance(k, bool) for row in keys for k in row):
                        ranks = [tuple((k if d == "asc" else -k) for k, (_, d) in zip(row, s_["q"]["order"])) for row in keys]
                        if ranks != sorted(ranks):
                            vs.append(violation(ID, "C14/notification-order-wrong", "step %d: subscription %d order %r gives %r" % (step, idx, s_["q"]["order"], keys[:6])))
                if resp.application_id != s_["c"]:
                    vs.append(violation(ID, "C14/notification-wrong-consumer", "subscription of consumer %d notified as %r" % (s_["c"], resp.application_id)))
                s_["last"] = cur
                s_["notified_once"] = True
                n_notifications += 1
            for idx, match in expected.items():
                if match is not None and idx not in got:
                    s_ = subs[idx]
                    vs.append(violation(ID, "C14/notification-missing", "step %d (%s): subscription %d (consumer %d, interval %d ms, multiplicity %r) has %d matching objects and %d ms passed since its last notification, but was not notified" % (
                        step, why, idx, s_["c"], s_["notify_ms"], s_["mult"], len(match), cur - s_["last"])))
                    s_["last"] = cur
            if pending_removed and any(c13.matches(m["msg"], s_["q"]) for s_ in subs if not s_["alive"] for m in model_objs):
                removed_then_attended = True

        for step, op in enumerate(case["ops"]):
            k = op["op"]
            try:
                if k == "adv":
                    clock.advance(op["ms"] / 1000.0)
                elif k == "reg":
                    ldm.if_ldm_4.register_data_consumer(RegisterDataConsumerReq(application_id=op["c"], access_permisions=(AccessPermission(op["c"]),), area_of_interest=GeometricArea(Circle(1000), None, None)))
                    consumers.add(op["c"])
                elif k == "dereg":
                    ldm.if_ldm_4.deregister_data_consumer(DeregisterDataConsumerReq(application_id=op["c"]))
                    if op["c"] in consumers:
                        for s_ in subs:
                            if s_["alive"] and s_["c"] == op["c"]:
                                s_["alive"] = False
                                s_["dead_why"] = "deregistration"
                                pending_removed = True
                    consumers.discard(op["c"])
                elif k == "sub":
                    q = {"types": op["types"], "f1": op["f1"], "logic": op["logic"], "f2": op["f2"] if op["f1"] is not None else None, "order": op["order"]}
                    flt = None
                    if q["f1"] is not None:
                        s1 = FilterStatement(q["f1"]["attr"], opmap[q["f1"]["op"]], q["f1"]["ref"])
                        flt = Filter(s1, LogicalOperators.AND if q["logic"] == "and" else LogicalOperators.OR, FilterStatement(q["f2"]["attr"], opmap[q["f2"]["op"]], q["f2"]["ref"])) if q["f2"] is not None else Filter(s1)
                    order = tuple(OrderTupleValue(a, OrderingDirection.ASCENDING if d == "asc" else OrderingDirection.DESCENDING) for a, d in q["order"]) or None
                    types = tuple(c13.TYPES[t] for t in q["types"])
                    prio, notify, mult = None, TimestampIts(op["notify_ms"]), op["mult"]
                    bad = op["bad"]
                    if bad == "type":
                        types = types + (99,)
                    elif bad == "priority":
                        prio = 256
                    elif bad == "interval":
                        notify = TimestampIts(-1)
                    elif bad == "multiplicity":
                        mult = 256
                    idx = len(subs)
                    req_obj = SubscribeDataobjectsReq(application_id=op["c"], data_object_type=types, priority=prio, filter=flt, notify_time=notify, multiplicity=mult, order=order)
                    cb_obj = mk_cb(idx)
                    r = ldm.if_ldm_4.subscribe_data_consumer(req_obj, cb_obj)
                    if op["c"] not in consumers:
                        want = SubscribeDataobjectsResult.INVALID_ITSA_ID
                    elif bad == "type":
                        want = SubscribeDataobjectsResult.INVALID_DATA_OBJECT_TYPE
                    elif bad == "priority":
                        want = SubscribeDataobjectsResult.INVALID_PRIORITY
                    elif bad == "interval":
                        want = SubscribeDataobjectsResult.INVALID_NOTIFICATION_INTERVAL
                    elif bad == "multiplicity":
                        want = SubscribeDataobjectsResult.INVALID_MULTIPLICITY
                    else:
                        want = SubscribeDataobjectsResult.SUCCESSFUL
                    if r.result != want:
                        vs.append(violation(ID, "C14/subscribe-result-wrong:%s" % want.name.lower(), "step %d: subscribe %r answered %s, expected %s" % (step, {kk: op[kk] for kk in ("c", "bad", "notify_ms", "mult")}, r.result, want)))
                    live = r.result == SubscribeDataobjectsResult.SUCCESSFUL
                    if live and op.get("kill") is not None:
                        on_fire[idx] = op["kill"]
                    subs.append({"id": r.subscription_id, "c": op["c"], "q": q, "notify_ms": op["notify_ms"], "mult": mult, "last": now_its_trunc(), "notified_once": False,
                                 "alive": live, "dead_why": "refusal", "req": req_obj, "cb": cb_obj, "copies": 1})
                    if not live:
                        labels.add("refused-subscription")
                elif k == "dupsub":
                    live_subs = [s_ for s_ in subs if s_["alive"] and s_["c"] in consumers]
                    if live_subs:
                        s_ = live_subs[-1] if op["ref"] == 99 else live_subs[op["ref"] % len(live_subs)]
                        r = ldm.if_ldm_4.subscribe_data_consumer(s_["req"], s_["cb"])      # same request object, same callback
                        if r.result == SubscribeDataobjectsResult.SUCCESSFUL:
                            if r.subscription_id != s_["id"]:
                                vs.append(violation(ID, "C14/identical-request-different-id", "step %d: the identical request got id %r, first time %r" % (step, r.subscription_id, s_["id"])))
                            s_["copies"] += 1
                            # both copies share one bookkeeping entry, which the second subscription restarts: judged like a fresh subscription
                            s_["last"] = now_its_trunc()
                            s_["notified_once"] = False
                            labels.add("identical-subscription-twice")
                        else:
                            vs.append(violation(ID, "C14/subscribe-result-wrong:successful", "step %d: repeating a live subscription's request answered %s" % (step, r.result)))
                elif k == "unsub":
                    mine = [s_ for s_ in subs if s_["alive"] and s_["c"] == op["c"]]
                    if op["unknown"] or not mine:
                        sid = 123456789 + op["ref"]
                    else:
                        sid = (mine[-1] if op["ref"] == 99 else mine[op["ref"] % len(mine)])["id"]
                    r = ldm.if_ldm_4.unsubscribe_data_consumer(UnsubscribeDataConsumerReq(application_id=op["c"], subscription_id=sid))
                    hit = [s_ for s_ in subs if s_["alive"] and s_["id"] == sid]
                    ok = op["c"] in consumers and bool(hit)
                    if (int(r.result) == 0) != ok:
                        vs.append(violation(ID, "C14/unsubscribe-result-wrong", "step %d: unsubscribe of %s id by consumer %d answered %s" % (step, "live" if hit else "unknown", op["c"], r.result)))
                    if ok:
                        for s_ in hit:
                            s_["alive"] = False
                            s_["dead_why"] = "unsubscription"
                            pending_removed = True
                elif k == "add":
                    msg = op["obj"]
                    kind = next(t for t in c13.TYPES if t in msg)
                    ts = its_ms(clock.now) + len(model_objs)
                    i = len(model_objs)
                    r = ldm.if_ldm_3.add_provider_data(AddDataProviderReq(application_id=c13.TYPES[kind], timestamp=TimestampIts(ts), location=Location.location_builder_circle(413100000 + i, 21100000, 5000, 0),
                                                                          data_object=msg, time_validity=TimeValidity(100000)))
                    model_objs.append({"msg": msg, "ts": ts})
                    if clock.monotonic() - last_reactive >= 0.5:
                        last_reactive = clock.monotonic()
                        attendance(step, "reactive attendance on add")
                        labels.add("reactive-attendance")
                    elif fired:
                        vs.append(violation(ID, "C14/notification-inside-throttle", "step %d: add %.3f s after the previous reactive attendance notified %d subscriptions" % (step, clock.monotonic() - last_reactive, len(fired))))
                        del fired[:]
                elif k == "attend":
                    svc.attend_subscriptions()
                    attendance(step, "explicit attendance")
            except Exception as e:
                vs.append(violation(ID, "C14/operation-raises:%s:%s" % (k, type(e).__name__), "step %d: %r raised %r" % (step, {kk: vv for kk, vv in op.items() if kk != "obj"}, e)))
            if fired and k not in ("add", "attend"):
                vs.append(violation(ID, "C14/notification-outside-attendance", "step %d: %s triggered %d callbacks" % (step, k, len(fired))))
                del fired[:]
            if vs:
                break
        live_max = sum(1 for s_ in subs if s_["alive"])
        nt = len(subs) >= 2 and n_notifications >= 1 and removed_then_attended
        if n_notifications:
            labels.add("notified")
        return Outcome(vs, labels=sorted(labels), nontrivial=nt)
    finally:
        clock.uninstall()


def job(n, seed):
    return core.hyp_run(case_s(), run_case, n=n, seed=seed, kind="history")


def jobs(tier, seed):
    k = 1 if tier == "quick" else 40
    return [{"fn": "vf.props.c14:job", "args": {"n": 1500 * k, "seed": seed * 1000 + s}} for s in range(16)]


def replay(kind, case):
    return run_case(case)

"""C18 - VRU clustering state machine stays consistent and never silences a VRU for good."""
from __future__ import annotations

import itertools

from hypothesis import strategies as st

from .. import core, fac
from ..core import Outcome, Partial, violation

ID = "C18"
RULE = ("(1) exhaustive breadth-first exploration of all event sequences up to a depth bound (quick 6, thorough 7) over the alphabet {role "
        "on/off, try-create with/without enough nearby VRUs, initiate-join(7|0), cancel-join, leave(reason), break-up(reason), receive VAM "
        "(plain / cluster information for id 7 or 8 / join / leave / break-up, from the leader or another station), update, clock step in "
        "{0.05, 0.5, 1, 2, 3.1 s}} with state hashing on the manager's fields, then hypothesis sequences up to 80 events; invariants after "
        "every event: leader <=> own cluster with id 1..255 and cardinality >= 1; passive <=> joined cluster id + known leader + armed "
        "leader-lost timer; should_transmit_vam false only when passive or idle; passive + leader silent >= timeClusterContinuity (or "
        "break-up from the leader) => stand-alone and transmitting after the next update; join / leave / break-up notifications present for "
        "exactly their durations. (2) closed loops of 2..3 real VRUAwarenessService instances exchanging VAMs through the real UPER coder: "
        "cluster creation, advertised cluster decoded by the peer, join completing (joiner passive, leader cardinality grows), then leader "
        "silence / break-up / leave. Non-trivial = sequence that reaches passive or leader and leaves it again; loop in which a cluster VAM "
        "was decoded by the peer.")
ASSUMPTIONS = [
    "the application calls update() (the service itself never does); 'by the next update' is judged right after an update() call",
    "duration clauses are judged at update() instants with 1 ms guard bands",
    "break-up with reason receptionOfCpmContainingCluster keeps members passive by design of the implementation: recorded known finding, excluded from the leave-on-break-up clause elsewhere",
]

LEADER = 55
OTHER = 66


def mk_vam(sid, cluster_id=None, card=2, join=None, leave=None, breakup=None, lat=413000000, lon=21000000, bbox=True):
    p = {"basicContainer": {"referencePosition": {"latitude": lat, "longitude": lon}},
         "vruHighFrequencyContainer": {"speed": {"speedValue": 100}, "heading": {"value": 900}}}
    if cluster_id is not None:
        p["vruClusterInformationContainer"] = {"vruClusterInformation": {"clusterId": cluster_id, "clusterCardinalitySize": card,
                                                                         "clusterBoundingBoxShape": ("circular", {"radius": 50})}}
        if not bbox:
            del p["vruClusterInformationContainer"]["vruClusterInformation"]["clusterBoundingBoxShape"]      # the field is OPTIONAL
    op = {}
    if join is not None:
        op["clusterJoinInfo"] = {"clusterId": join, "joinTime": 4}
    if leave is not None:
        op["clusterLeaveInfo"] = {"clusterId": leave, "clusterLeaveReason": "notProvided"}
    if breakup is not None:
        op["clusterBreakupInfo"] = {"clusterBreakupReason": breakup, "breakupTime": 4}
    if op:
        p["vruClusterOperationContainer"] = op
    return {"header": {"stationId": sid}, "vam": {"vamParameters": p}}


ALPHABET = [
    ("role_off",), ("role_on",), ("create_enough",), ("create_few",), ("join", 7), ("join", 0), ("cancel",), ("leave", "safetyCondition"), ("leave", "notProvided"),
    ("breakup", "clusteringPurposeCompleted"), ("breakup", "notProvided"),
    ("rx_plain", LEADER), ("rx_plain", OTHER), ("rx_cluster", LEADER, 7), ("rx_cluster", OTHER, 8), ("rx_cluster", OTHER, 7), ("rx_cluster", OTHER, 77), ("rx_join_own",), ("rx_leave_own",),
    ("rx_breakup", LEADER, "clusterDisbandedByLeader"), ("rx_breakup", OTHER, "notProvided"), ("update",),
    ("step", 0.05), ("step", 0.5), ("step", 1.0), ("step", 2.0), ("step", 3.1),
]
CPM = ("rx_breakup", LEADER, "receptionOfCpmContainingCluster")


class Harness:
    """Real VBSClusteringManager + the small bookkeeping needed to judge the timed clauses."""

    def __init__(self):
        from flexstack.facilities.vru_awareness_service.vru_clustering import VBSClusteringManager
        import flexstack.facilities.vru_awareness_service.vru_clustering as vc
        import types
        self.vc = vc
        self.now = 1000.0
        self._saved_random = vc.random
        vc.random = types.SimpleNamespace(randint=lambda a, b: 77)      # the identifier every draw proposes; ("rx_cluster", OTHER, 77) makes it taken: no free identifier
        self.m = VBSClusteringManager(own_station_id=11, time_fn=lambda: self.now)
        self.join_t = None          # time initiate_join succeeded (cleared when the join ends)
        self.leave_t = None         # time the station went passive -> stand-alone
        self.breakup_t = None
        self.last_leader_rx = None  # while passive: time of the last VAM from the leader
        self.breakup_from_leader = False
        self.was = set()

    def close(self):
        self.vc.random = self._saved_random

    def key(self):
        m = self.m
        c = m._cluster
        def rel(t):
            return None if t is None else round(self.now - t, 3)
        return (m._state.value, None if c is None else (c.cluster_id, c.cardinality, rel(c.breakup_started), tuple(sorted(c.pending_members))),
                m._joined_cluster_id, m._leader_station_id, rel(m._last_leader_vam_time), m._join_substate.value, m._join_target_cluster_id, rel(m._join_started),
                rel(m._join_leave_started), m._leave_substate.value, rel(m._leave_started), tuple(sorted((k, rel(v.last_seen)) for k, v in m._nearby_vrus.items())),
                tuple(sorted((k, rel(v.last_seen)) for k, v in m._nearby_clusters.items())), rel(self.join_t), (None if self.leave_t is None else (rel(self.leave_t) if self.now - self.leave_t < 1.002 else "old")), rel(self.breakup_t), rel(self.last_leader_rx), self.breakup_from_leader)

    def apply(self, ev):
        """Apply one event; returns list of violations."""
        from flexstack.facilities.vru_awareness_service.vru_clustering import ClusterBreakupReason, ClusterLeaveReason, VBSState
        m = self.m
        vs = []
        before = m.state
        k = ev[0]
        waiting_for = m._join_target_cluster_id if m._join_substate.value == "waiting" else None
        try:
            if k == "role_off":
                m.set_vru_role_off()
                self.join_t = self.leave_t = self.breakup_t = None
            elif k == "role_on":
                m.set_vru_role_on()
            elif k == "create_enough":
                for sid in (101, 102, 103):
                    m.on_received_vam(mk_vam(sid))
                if m.try_create_cluster(41.3, 2.1):
                    self.join_t = None
            elif k == "create_few":
                m.try_create_cluster(41.3, 2.1)
            elif k == "join":
                if m.initiate_join(ev[1]):
                    self.join_t = self.now
            elif k == "cancel":
                m.cancel_join()
                self.join_t = None
            elif k == "leave":
                m.trigger_leave_cluster(ClusterLeaveReason(ev[1]))
                if before is VBSState.VRU_ACTIVE_STANDALONE:
                    self.join_t = None if m._join_substate.value != "notify" else self.join_t
            elif k == "breakup":
                if m.trigger_breakup_cluster(ClusterBreakupReason(ev[1])):
                    self.breakup_t = self.now
            elif k == "rx_plain":
                m.on_received_vam(mk_vam(ev[1]))
            elif k == "rx_cluster":
                m.on_received_vam(mk_vam(ev[1], cluster_id=ev[2]))
            elif k == "rx_cluster_nobbox":
                m.on_received_vam(mk_vam(ev[1], cluster_id=ev[2], bbox=False))
            elif k == "rx_breakup_nobbox":
                m.on_received_vam(mk_vam(ev[1], cluster_id=7, breakup=ev[2], bbox=False))
            elif k == "rx_join_own":
                cid = m.get_cluster_id() if m.state is VBSState.VRU_ACTIVE_CLUSTER_LEADER else 7
                m.on_received_vam(mk_vam(OTHER, join=cid))
            elif k == "rx_leave_own":
                cid = m.get_cluster_id() if m.state is VBSState.VRU_ACTIVE_CLUSTER_LEADER else 7
                m.on_received_vam(mk_vam(OTHER, leave=cid))
            elif k == "rx_breakup":
                m.on_received_vam(mk_vam(ev[1], cluster_id=7, breakup=ev[2]))
            elif k == "update":
                m.update(41.3, 2.1, 1.0, 90.0)
            elif k == "step":
                self.now = round(self.now + ev[1], 6)
        except Exception as e:
            vs.append(violation(ID, "C18/event-raises:%s:%s" % (k, type(e).__name__), "event %r raised %r" % (ev, e)))
            return vs
        after = m.state
        self.was.add(after.value)
        if k in ("rx_cluster", "rx_cluster_nobbox") and waiting_for is not None and waiting_for == ev[2] and before is VBSState.VRU_ACTIVE_STANDALONE and after is not VBSState.VRU_PASSIVE:
            vs.append(violation(ID, "C18/join-not-completed-by-cluster-vam", "waiting to be admitted to cluster %d; a cluster VAM for it from station %d arrived (%s) and the station is %s" % (
                ev[2], ev[1], "no bounding box" if k.endswith("nobbox") else "with bounding box", after.value)))
        # bookkeeping for the timed clauses
        if after is VBSState.VRU_PASSIVE:
            if before is not VBSState.VRU_PASSIVE:
                self.last_leader_rx = self.now
                self.breakup_from_leader = False
                self.join_t = None
            sender = ev[1] if k in ("rx_plain", "rx_cluster", "rx_breakup", "rx_cluster_nobbox", "rx_breakup_nobbox") else (OTHER if k in ("rx_join_own", "rx_leave_own") else None)
            if sender is not None and sender == m._leader_station_id:
                self.last_leader_rx = self.now          # any VAM of the leader re-arms the leader-lost timer
            if k in ("rx_breakup", "rx_breakup_nobbox") and ev[1] == m._leader_station_id and ev[2] != "receptionOfCpmContainingCluster":
                self.breakup_from_leader = True
        if before is VBSState.VRU_PASSIVE and after is VBSState.VRU_ACTIVE_STANDALONE:
            self.leave_t = self.now
            self.last_leader_rx = None
        if after is not VBSState.VRU_ACTIVE_CLUSTER_LEADER:
            self.breakup_t = None
        if after is not VBSState.VRU_ACTIVE_STANDALONE:
            if after is not VBSState.VRU_PASSIVE:
                self.leave_t = None
            self.join_t = None
        vs.extend(self.invariants(ev, before))
        return vs

    def invariants(self, ev, before):
        from flexstack.facilities.vru_awareness_service.vru_clustering import VBSState
        m = self.m
        vs = []
        s = m.state
        info = m.get_cluster_information_container()
        owns = m._cluster is not None
        if (s is VBSState.VRU_ACTIVE_CLUSTER_LEADER) != owns:
            vs.append(violation(ID, "C18/leader-iff-owns-cluster", "after %r: state %s, own cluster %r" % (ev, s.value, m._cluster)))
        if s is VBSState.VRU_ACTIVE_CLUSTER_LEADER:
            ci = (info or {}).get("vruClusterInformation", {})
            if not info or not (1 <= ci.get("clusterId", 0) <= 255) or ci.get("clusterCardinalitySize", 0) < 1:
                vs.append(violation(ID, "C18/leader-cluster-id-or-cardinality", "after %r: leader with cluster information %r" % (ev, info)))
        elif info is not None:
            vs.append(violation(ID, "C18/cluster-information-while-not-leader", "after %r: state %s advertises %r" % (ev, s.value, info)))
        joined = m._joined_cluster_id is not None and m._leader_station_id is not None and m._last_leader_vam_time is not None
        if (s is VBSState.VRU_PASSIVE) != joined:
            vs.append(violation(ID, "C18/passive-iff-joined-with-leader-and-timer", "after %r: state %s, joined id %r leader %r timer %r" % (
                ev, s.value, m._joined_cluster_id, m._leader_station_id, m._last_leader_vam_time)))
        if not m.should_transmit_vam() and s not in (VBSState.VRU_PASSIVE, VBSState.VRU_IDLE):
            vs.append(violation(ID, "C18/transmission-suppressed-outside-passive-idle", "after %r: should_transmit_vam() False in state %s" % (ev, s.value)))
        if ev[0] == "update":
            op = m.get_cluster_operation_container() or {}
            # passive + leader silent / break-up => stand-alone and transmitting by the next update
            if before is VBSState.VRU_PASSIVE and self.last_leader_rx is not None:
                silent = self.now - self.last_leader_rx
                if (silent >= 2.0 + 1e-3 or self.breakup_from_leader) and (s is VBSState.VRU_PASSIVE or not m.should_transmit_vam()):
                    vs.append(violation(ID, "C18/passive-not-released:%s" % ("breakup" if self.breakup_from_leader else "leader-silent"),
                                        "update() %.3f s after the last leader VAM (break-up heard: %r): still %s, should_transmit_vam=%r" % (silent, self.breakup_from_leader, s.value, m.should_transmit_vam())))
            if s is VBSState.VRU_ACTIVE_STANDALONE and self.join_t is not None:
                el = self.now - self.join_t
                if el < 3.0 - 1e-3 and "clusterJoinInfo" not in op:
                    vs.append(violation(ID, "C18/join-notification-too-short", "%.3f s after initiate_join the operation container is %r" % (el, op)))
                if el >= 3.0 + 1e-3 and "clusterJoinInfo" in op:
                    vs.append(violation(ID, "C18/join-notification-too-long", "%.3f s after initiate_join the VAM still carries clusterJoinInfo" % el))
                if el >= 3.0 + 1e-3:
                    self.join_t = None
            if self.leave_t is not None:
                el = self.now - self.leave_t
                js = m._join_substate.value
                if el < 1.0 - 1e-3 and s is VBSState.VRU_ACTIVE_STANDALONE and self.join_t is None and js == "none" and "clusterLeaveInfo" not in op:
                    vs.append(violation(ID, "C18/leave-notification-too-short", "%.3f s after leaving the cluster the operation container is %r" % (el, op)))
                # the notification of THAT leave ends after timeClusterLeaveNotification whatever else the station does meanwhile (a join that
                # was cancelled or failed produces a leave notification of its own, which is not judged here)
                if el >= 1.0 + 1e-3 and "clusterLeaveInfo" in op and js not in ("cancelled", "failed"):
                    vs.append(violation(ID, "C18/leave-notification-too-long", "%.3f s after leaving the cluster the VAM still carries clusterLeaveInfo (state %s, join substate %s)" % (el, s.value, js)))
            if self.breakup_t is not None:
                el = self.now - self.breakup_t
                if el >= 3.0 + 1e-3 and s is VBSState.VRU_ACTIVE_CLUSTER_LEADER:
                    vs.append(violation(ID, "C18/breakup-warning-too-long", "%.3f s after the break-up was triggered the station still leads the cluster" % el))
                if el < 3.0 - 1e-3 and (s is not VBSState.VRU_ACTIVE_CLUSTER_LEADER or "clusterBreakupInfo" not in op):
                    vs.append(violation(ID, "C18/breakup-warning-too-short", "%.3f s after the break-up was triggered: state %s, container %r" % (el, s.value, op)))
        return vs


def run_sequence(events):
    h = Harness()
    try:
        vs = []
        for ev in events:
            vs.extend(h.apply(tuple(ev)))
            if vs:
                break
        left = ("VRU-PASSIVE" in h.was or "VRU-ACTIVE-CLUSTER-LEADER" in h.was) and h.m.state.value in ("VRU-ACTIVE-STANDALONE", "VRU-IDLE")
        return Outcome(vs, labels=["reached:" + ",".join(sorted(x.split("-")[-1] for x in h.was))], nontrivial=left)
    finally:
        h.close()


def job_bfs(depth, shard, nshards):
    """Exhaustive exploration with state hashing: each distinct (manager state, bookkeeping) is expanded once."""
    part = Partial()
    first_layer = [e for i, e in enumerate(ALPHABET) if i % nshards == shard]
    seen = set()
    frontier = [[e] for e in first_layer]
    n = nt = states = 0
    sigs = {}
    for d in range(1, depth + 1):
        nxt = []
        for seq in frontier:
            h = Harness()
            try:
                vs = []
                for ev in seq:
                    vs.extend(h.apply(ev))
                n += 1
                key = h.key()
                left = ("VRU-PASSIVE" in h.was or "VRU-ACTIVE-CLUSTER-LEADER" in h.was) and h.m.state.value in ("VRU-ACTIVE-STANDALONE", "VRU-IDLE")
                nt += left
                for v in vs:
                    part.sig_counts[v["signature"]] += 1
                    if v["signature"] not in sigs:
                        sigs[v["signature"]] = 1
                        v["case"] = {"events": [list(e) for e in seq]}
                        v["kind"] = "sequence"
                        part.violations.append(v)
                if vs or key in seen:
                    continue
                seen.add(key)
                states += 1
                if d < depth:
                    for e in ALPHABET:
                        nxt.append(seq + [e])
            finally:
                h.close()
        frontier = nxt
    part.evaluations += n
    part.nontrivial_extra += nt
    part.subcount("bfs", sequences=n, distinct_states=states, depth=str(depth), exhaustive=True)
    if shard == 0:
        part.samples.append({"kind": "sequence", "nontrivial": True, "case": {"events": [["join", 7], ["step", 3.1], ["update"], ["rx_cluster", 55, 7], ["step", 2.0], ["update"]]}})
    return part


def seq_s():
    ev = st.sampled_from(ALPHABET + [CPM, ("rx_cluster_nobbox", LEADER, 7), ("rx_cluster_nobbox", OTHER, 8), ("rx_breakup_nobbox", LEADER, "clusterDisbandedByLeader")]).map(list)
    scen4 = st.just([["join", 7], ["step", 3.1], ["update"], ["rx_cluster_nobbox", LEADER, 7], ["update"], ["step", 0.5], ["rx_breakup_nobbox", LEADER, "clusterDisbandedByLeader"], ["update"]])
    scen = st.just([["join", 7], ["step", 3.1], ["update"], ["rx_cluster", LEADER, 7]])
    scen2 = st.just([["create_enough"], ["rx_join_own"]])
    # member of cluster 7 leaves and starts joining again while the leave notification is still running
    scen3 = st.tuples(st.sampled_from([["leave", "notProvided"], ["leave", "safetyCondition"], ["step", 2.0], ["rx_breakup", LEADER, "clusterDisbandedByLeader"]]),
                      st.sampled_from([0.05, 0.5]), st.sampled_from([1.0, 3.1])).map(
        lambda t: [["join", 7], ["step", 3.1], ["update"], ["rx_cluster", LEADER, 7], t[0], ["update"], ["step", t[1]], ["join", 7], ["step", t[2]], ["update"], ["step", 3.1], ["update"],
                   ["rx_cluster", LEADER, 7], ["update"]])
    return st.lists(st.one_of(ev.map(lambda e: [e]), ev.map(lambda e: [e]), ev.map(lambda e: [e]), scen, scen2, scen3, scen4), min_size=1, max_size=40).map(lambda ll: {"events": [x for l in ll for x in l][:80]})


def run_seq_case(case):
    out = run_sequence(case["events"])
    return out


def job_random(n, seed):
    return core.hyp_run(seq_s(), run_seq_case, n=n, seed=seed, kind="sequence")


# ---- closed loops through the real coder -----------------------------------------------------------
def loop_s():
    return st.fixed_dictionaries({
        "n": st.integers(2, 3), "period_ms": st.sampled_from([100, 200, 300, 400]), "phantoms": st.integers(3, 4),
        "ending": st.sampled_from(["leader_silent", "breakup", "leave", "none"]),
        "join_after_ms": st.sampled_from([300, 1000, 2500]), "second_joiner": st.booleans(),
        "breakup_reason": st.sampled_from(["clusteringPurposeCompleted", "notProvided", "leaderMovedOutOfClusterBoundingBox"]),
    })


class LoopBTP(fac.RecBTP):
    """BTP stand-in that hands every VAM payload to the other services' reception callbacks (port 2018)."""

    def __init__(self, clock, net, idx):
        super().__init__(clock)
        self.net, self.idx = net, idx

    def btp_data_request(self, request):
        super().btp_data_request(request)
        self.net.append((self.idx, bytes(request.data)))


def run_loop(case):
    from flexstack.btp.service_access_point import BTPDataIndication
    from flexstack.facilities.vru_awareness_service.vam_transmission_management import DeviceDataProvider
    from flexstack.facilities.vru_awareness_service.vru_awareness_service import VRUAwarenessService
    from flexstack.facilities.vru_awareness_service.vru_clustering import ClusterBreakupReason, ClusterLeaveReason, VBSState
    import flexstack.facilities.vru_awareness_service.vru_awareness_service as vas
    import flexstack.facilities.vru_awareness_service.vam_transmission_management as vtm
    import flexstack.facilities.vru_awareness_service.vru_clustering as vc
    import types
    from ..vclock import VClock

    clock = VClock(1_700_000_000.0)
    vs = []
    labels = set()
    try:
        clock.install([vtm])
        fac.patch_real_time(clock)
        clock._set(vas, "VAMCoder", lambda: fac.coder("vam"))
        clock._set(vc, "random", types.SimpleNamespace(randint=lambda a, b: 77))
        n = case["n"]
        net = []
        svcs, btps = [], []
        for i in range(n):
            b = LoopBTP(clock, net, i)
            s = VRUAwarenessService(b, DeviceDataProvider(station_id=200 + i, station_type=1))
            s.clustering_manager._time_fn = lambda: clock.now
            svcs.append(s)
            btps.append(b)
        pos = [(41.3 + i * 1e-5, 2.1) for i in range(n)]     # ~1.1 m apart
        decoded_cluster_vam = [False]

        def deliver():
            while net:
                src, data = net.pop(0)
                for j in range(n):
                    if j == src:
                        continue
                    before_clusters = svcs[j].clustering_manager.get_nearby_cluster_count()
                    try:
                        btps[j].callbacks[2018](BTPDataIndication(destination_port=2018, data=data, length=len(data)))
                    except Exception as e:
                        vs.append(violation(ID, "C18/loop-reception-raises:%s" % type(e).__name__, "station %d raised %r on a peer's VAM" % (j, e)))
                    if svcs[j].clustering_manager.get_nearby_cluster_count() > before_clusters:
                        decoded_cluster_vam[0] = True

        def tick(active=None):
            """one report period for every (active) station: report -> VAM -> delivery -> update"""
            clock.advance(case["period_ms"] / 1000.0)
            for i in range(n):
                if active is not None and i not in active:
                    continue
                rep = fac.tpv(clock.now, {"lat": pos[i][0], "lon": pos[i][1], "speed": 1.0, "track": 90.0, "epx": 1.0, "epy": 1.0})
                try:
                    svcs[i].vam_transmission_management.location_service_callback(rep)
                except Exception as e:
                    vs.append(violation(ID, "C18/loop-generation-raises:%s" % type(e).__name__, "station %d: %r" % (i, e)))
                deliver()
                svcs[i].clustering_manager.update(pos[i][0], pos[i][1], 1.0, 90.0)

        # phantom VRUs so that station 0 sees enough neighbours to create a cluster
        for k in range(case["phantoms"]):
            v = mk_vam(900 + k, lat=413000000 + k * 50, lon=21000000)
            v["header"].update({"protocolVersion": 3, "messageId": 16})
            v["vam"]["generationDeltaTime"] = 0
            bc = v["vam"]["vamParameters"]["basicContainer"]
            bc["stationType"] = 1
            bc["referencePosition"].update({"positionConfidenceEllipse": {"semiMajorAxisLength": 4095, "semiMinorAxisLength": 4095, "semiMajorAxisOrientation": 3601},
                                            "altitude": {"altitudeValue": 800001, "altitudeConfidence": "unavailable"}})
            hf = v["vam"]["vamParameters"]["vruHighFrequencyContainer"]
            hf["heading"]["confidence"] = 127
            hf["speed"]["speedConfidence"] = 127
            hf["longitudinalAcceleration"] = {"longitudinalAccelerationValue": 161, "longitudinalAccelerationConfidence": 102}
            net.append((-1, fac.coder("vam").encode(v)))
        deliver()
        tick()
        lead = svcs[0].clustering_manager
        if not lead.try_create_cluster(*pos[0]):
            vs.append(violation(ID, "C18/loop-cluster-not-created", "station 0 saw %d nearby VRUs (decoded from the wire) but could not create a cluster" % lead.get_nearby_vru_count()))
            return Outcome(vs, labels=["loop"], nontrivial=False)
        for _ in range(max(1, case["join_after_ms"] // case["period_ms"])):
            tick()
        cid = lead.get_cluster_id()
        joiners = [1] + ([2] if n == 3 and case["second_joiner"] else [])
        for j in joiners:
            cm = svcs[j].clustering_manager
            if cm.get_nearby_cluster_count() < 1:
                vs.append(violation(ID, "C18/loop-advertised-cluster-not-seen", "station %d decoded the leader's VAMs but recorded no nearby cluster" % j))
                continue
            if not cm.initiate_join(cid):
                vs.append(violation(ID, "C18/loop-join-refused", "station %d could not initiate the join" % j))
        if vs:
            return Outcome(vs, labels=["loop"], nontrivial=decoded_cluster_vam[0])
        card_before = lead.get_cluster_information_container()["vruClusterInformation"]["clusterCardinalitySize"]
        steps = int(4200 / case["period_ms"]) + 2
        for _ in range(steps):
            tick()
        for j in joiners:
            cm = svcs[j].clustering_manager
            if cm.state is not VBSState.VRU_PASSIVE:
                vs.append(violation(ID, "C18/loop-join-not-completed", "station %d is %s %.1f s after initiating the join towards the advertised cluster %d (report period %d ms)" % (
                    j, cm.state.value, steps * case["period_ms"] / 1000.0, cid, case["period_ms"])))
            elif cm.should_transmit_vam():
                vs.append(violation(ID, "C18/loop-passive-still-transmitting", "station %d joined but keeps transmitting individual VAMs" % j))
        info = lead.get_cluster_information_container()
        if info is None or info["vruClusterInformation"]["clusterCardinalitySize"] < card_before + len(joiners):
            vs.append(violation(ID, "C18/loop-leader-cardinality-not-grown", "leader cardinality %r after %d joins (before: %d)" % (
                None if info is None else info["vruClusterInformation"]["clusterCardinalitySize"], len(joiners), card_before)))
        if vs:
            return Outcome(vs, labels=["loop"], nontrivial=True)
        labels.add("loop-joined")
        # ---- ending
        end = case["ending"]
        if end == "leader_silent":
            for _ in range(int(2300 / case["period_ms"]) + 2):
                tick(active=set(range(1, n)))
        elif end == "breakup":
            lead.trigger_breakup_cluster(ClusterBreakupReason(case["breakup_reason"]))
            for _ in range(int(3400 / case["period_ms"]) + 2):
                tick()
        elif end == "leave":
            svcs[1].clustering_manager.trigger_leave_cluster(ClusterLeaveReason.SAFETY_CONDITION)
            tick()
        if end in ("leader_silent", "breakup"):
            for j in joiners:
                cm = svcs[j].clustering_manager
                n_before = len(btps[j].requests)
                tick(active={j} if end == "leader_silent" else None)
                tick(active={j} if end == "leader_silent" else None)
                if cm.state is VBSState.VRU_PASSIVE or len(btps[j].requests) == n_before:
                    vs.append(violation(ID, "C18/loop-passive-not-released:%s" % end, "station %d after %s: state %s, %d VAMs in the last two periods" % (j, end, cm.state.value, len(btps[j].requests) - n_before)))
            if end == "breakup" and lead.state is not VBSState.VRU_ACTIVE_STANDALONE:
                vs.append(violation(ID, "C18/loop-leader-not-standalone-after-breakup", "leader state %s" % lead.state.value))
        if end == "leave":
            cm = svcs[1].clustering_manager
            n_before = len(btps[1].requests)
            tick()
            if cm.state is not VBSState.VRU_ACTIVE_STANDALONE or len(btps[1].requests) == n_before:
                vs.append(violation(ID, "C18/loop-leaver-not-transmitting", "station 1 after leave: state %s" % cm.state.value))
        return Outcome(vs, labels=sorted(labels) + ["loop:" + end], nontrivial=decoded_cluster_vam[0])
    finally:
        clock.uninstall()


def job_loops(n, seed):
    return core.hyp_run(loop_s(), run_loop, n=n, seed=seed, kind="loop")


def job_cpm_probe():
    """Dedicated probe of the recorded finding: break-up with reason receptionOfCpmContainingCluster."""
    part = Partial()
    seq = [["join", 7], ["step", 3.1], ["update"], ["rx_cluster", LEADER, 7], list(CPM), ["step", 0.5], ["update"]]
    h = Harness()
    try:
        for ev in seq:
            h.apply(tuple(ev))
        from flexstack.facilities.vru_awareness_service.vru_clustering import VBSState
        vs = []
        if h.m.state is VBSState.VRU_PASSIVE:
            vs.append(violation(ID, "C18/passive-not-released:breakup-reason-cpm", "leader announced break-up (receptionOfCpmContainingCluster) but the member stays passive after update()"))
        part.record({"events": seq}, Outcome(vs, nontrivial=True), kind="sequence")
    finally:
        h.close()
    return part


def jobs(tier, seed):
    depth = 6 if tier == "quick" else 7
    k = 1 if tier == "quick" else 20
    js = [{"fn": "vf.props.c18:job_bfs", "args": {"depth": depth, "shard": s, "nshards": 13}} for s in range(13)]
    js += [{"fn": "vf.props.c18:job_random", "args": {"n": 400 * k, "seed": seed * 1000 + s}} for s in range(3)]
    js += [{"fn": "vf.props.c18:job_loops", "args": {"n": 40 * k, "seed": seed * 1000 + 10 + s}} for s in range(3)]
    js += [{"fn": "vf.props.c18:job_cpm_probe"}]
    return js


def replay(kind, case):
    if kind == "loop":
        return run_loop(case)
    return run_sequence(case["events"])

"""Virtual time and virtual timers (DESIGN 1.2).  Installed from the harness by assigning module
attributes; no repository hook is needed."""
from __future__ import annotations

import heapq
import itertools
import threading as _real_threading
import time as _real_time
import types


class VTimer:
    """Mimics threading.Timer on a VClock."""

    _ids = itertools.count()

    def __init__(self, interval, function, args=None, kwargs=None, *, clock=None):
        self.clock = clock or VClock.current
        self.interval = interval
        self.function = function
        self.args = list(args) if args is not None else []
        self.kwargs = dict(kwargs) if kwargs is not None else {}
        self.daemon = True
        self.cancelled = False
        self.started = False
        self.fired = False
        self.finished = _real_threading.Event()
        self.due = None
        self.id = next(VTimer._ids)
        self.name = "VTimer-%d" % self.id

    def start(self):
        if self.started:
            raise RuntimeError("threads can only be started once")
        self.started = True
        self.due = self.clock.now + max(0.0, float(self.interval))
        self.clock._push(self)

    def cancel(self):
        self.cancelled = True
        self.finished.set()
        self.clock.cancel_log.append((self.clock.now, self.id))

    def is_alive(self):
        return self.started and not self.fired and not self.cancelled

    def join(self, timeout=None):
        return None

    def _fire(self):
        if self.cancelled or self.fired:
            return False
        self.fired = True
        self.finished.set()
        self.function(*self.args, **self.kwargs)
        return True


class VClock:
    """Discrete-event clock.  now = UTC seconds (float)."""

    current: "VClock" = None  # type: ignore

    def __init__(self, start=1_700_000_000.0):
        self.now = float(start)
        self.mono0 = 1000.0 - float(start)
        self._heap = []
        self._seq = itertools.count()
        self.fired_log = []
        self.cancel_log = []
        self._patched = []
        VClock.current = self

    # --- agenda ---
    def _push(self, timer):
        heapq.heappush(self._heap, (round(timer.due, 9), next(self._seq), timer))

    def pending(self):
        return [t for _, _, t in self._heap if not t.cancelled and not t.fired]

    def next_due(self):
        while self._heap and (self._heap[0][2].cancelled or self._heap[0][2].fired):
            heapq.heappop(self._heap)
        return self._heap[0][0] if self._heap else None

    def advance(self, dt, max_fires=100000):
        """Advance by dt seconds firing due timers in due order (ties: creation order)."""
        target = self.now + dt
        fires = 0
        while True:
            nd = self.next_due()
            if nd is None or nd > target + 1e-12:
                break
            _, _, t = heapq.heappop(self._heap)
            if nd > self.now:
                self.now = nd
            if t._fire():
                self.fired_log.append((self.now, t.id))
                fires += 1
                if fires > max_fires:
                    raise RuntimeError("too many timer fires")
        self.now = max(self.now, target)
        return fires

    def advance_to(self, t):
        return self.advance(max(0.0, t - self.now))

    def fire_next(self):
        nd = self.next_due()
        if nd is None:
            return False
        self.advance_to(nd)
        return True

    # --- shims ---
    def time(self):
        return self.now

    def monotonic(self):
        return self.now + self.mono0

    def time_shim(self):
        clock = self
        shim = types.ModuleType("time")
        for k in dir(_real_time):
            if not k.startswith("__"):
                setattr(shim, k, getattr(_real_time, k))
        shim.time = lambda: clock.now
        shim.monotonic = lambda: clock.now + clock.mono0
        shim.monotonic_ns = lambda: int((clock.now + clock.mono0) * 1e9)
        shim.time_ns = lambda: int(clock.now * 1e9)
        shim.perf_counter = shim.monotonic
        shim.sleep = lambda s: clock.advance(s)
        return shim

    def threading_shim(self):
        clock = self
        shim = types.ModuleType("threading")
        for k in dir(_real_threading):
            if not k.startswith("__"):
                setattr(shim, k, getattr(_real_threading, k))
        shim.Timer = lambda interval, function, args=None, kwargs=None: VTimer(interval, function, args, kwargs, clock=clock)
        return shim

    def timer_factory(self):
        clock = self
        return lambda interval, function, args=None, kwargs=None: VTimer(interval, function, args, kwargs, clock=clock)

    # --- installation ---
    def _set(self, obj, name, value):
        self._patched.append((obj, name, obj.__dict__.get(name, _MISSING) if isinstance(obj, type) else getattr(obj, name, _MISSING)))
        setattr(obj, name, value)

    def install(self, modules=()):
        """Patch TimeService.time and, in each given module, the names time / threading / Timer."""
        from flexstack.utils.time_service import TimeService

        clock = self
        self._set(TimeService, "time", staticmethod(lambda: clock.now))
        for mod in modules:
            d = mod.__dict__
            if isinstance(d.get("time"), types.ModuleType):
                self._set(mod, "time", self.time_shim())
            if isinstance(d.get("threading"), types.ModuleType):
                self._set(mod, "threading", self.threading_shim())
            if "Timer" in d and (d["Timer"] is _real_threading.Timer or getattr(d["Timer"], "_vf", False) or callable(d["Timer"])):
                f = self.timer_factory()
                self._set(mod, "Timer", f)
        return self

    def uninstall(self):
        for obj, name, old in reversed(self._patched):
            if old is _MISSING:
                try:
                    delattr(obj, name)
                except AttributeError:
                    pass
            else:
                setattr(obj, name, old)
        self._patched = []


_MISSING = object()

ITS_EPOCH = 1072915200
LEAP = 5


def its_ms(utc_seconds: float) -> int:
    """ITS timestamp in ms (TAI-based, 5 leap seconds since 2004) for a UTC instant."""
    return int(round((utc_seconds - ITS_EPOCH + LEAP) * 1000))


def tst32(utc_seconds: float) -> int:
    return its_ms(utc_seconds) % (1 << 32)


def utc_before_wrap(ms_before: int, wrap_n: int = 150) -> float:
    """UTC instant `ms_before` milliseconds before the wrap_n-th wrap of the 32-bit ITS millisecond timestamp (the 150th is in 2024)."""
    return ITS_EPOCH - LEAP + (wrap_n * (1 << 32) - ms_before) / 1000.0


class SleepWorld:
    """Real threads whose time.sleep() parks them on the virtual clock (deterministic discrete-event
    execution): the driver advances time to the earliest wake-up only when every live worker thread is
    parked or finished."""

    def __init__(self, clock: VClock):
        self.clock = clock
        self.cv = _real_threading.Condition()
        self.live = set()          # worker threads started and not finished
        self.parked = {}           # thread -> (wake time, seq, event)
        self._seq = itertools.count()
        self.errors = []
        world = self

        class VThread(_real_threading.Thread):
            def __init__(self, *a, **k):
                super().__init__(*a, **k)
                self.daemon = True

            def start(self):
                with world.cv:
                    world.live.add(self)
                super().start()

            def run(self):
                try:
                    super().run()
                except BaseException as e:  # recorded for the harness
                    world.errors.append((self.name, repr(e)))
                finally:
                    with world.cv:
                        world.live.discard(self)
                        world.cv.notify_all()

        self.Thread = VThread

    def sleep(self, seconds):
        me = _real_threading.current_thread()
        if me not in self.live:
            self.clock.advance(seconds)     # driver thread
            return
        ev = _real_threading.Event()
        with self.cv:
            self.parked[me] = (round(self.clock.now + max(0.0, seconds), 9), next(self._seq), ev)
            self.cv.notify_all()
        ev.wait()

    def _wait_all_parked(self, real_timeout=120.0):
        deadline = _real_time.monotonic() + real_timeout
        with self.cv:
            while any(t not in self.parked for t in self.live):
                left = deadline - _real_time.monotonic()
                if left <= 0:
                    raise RuntimeError("worker threads neither parked nor finished (real-time guard)")
                self.cv.wait(left)

    def run(self, until=None, max_wakes=100000):
        """Run workers until none is left, or (until given) virtual time `until` is reached."""
        wakes = 0
        while True:
            self._wait_all_parked()
            with self.cv:
                if not self.parked:
                    break
                th, (wake, _, ev) = min(self.parked.items(), key=lambda kv: (kv[1][0], kv[1][1]))
                if until is not None and wake > until + 1e-12:
                    break
                del self.parked[th]
            self.clock.advance_to(wake)
            ev.set()
            wakes += 1
            if wakes > max_wakes:
                raise RuntimeError("too many wake-ups")
        if until is not None:
            self.clock.advance_to(until)
        return wakes

    def shims(self):
        """(time shim, threading shim) for modules whose threads sleep."""
        t = self.clock.time_shim()
        t.sleep = self.sleep
        th = self.clock.threading_shim()
        th.Thread = self.Thread
        return t, th

    def install(self, modules):
        t, th = self.shims()
        for mod in modules:
            d = mod.__dict__
            if isinstance(d.get("time"), types.ModuleType):
                self.clock._set(mod, "time", t)
            if isinstance(d.get("threading"), types.ModuleType):
                self.clock._set(mod, "threading", th)
        return self

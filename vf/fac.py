"""Shared helpers for the facility-layer checks (C10, C11, C17, C18): recording BTP router,
TPV report construction, cached coders, virtual-time installation for the facility modules."""
from __future__ import annotations

import datetime
import types

_CODERS = {}


def coder(name):
    if name not in _CODERS:
        if name == "cam":
            from flexstack.facilities.ca_basic_service.cam_coder import CAMCoder
            _CODERS[name] = CAMCoder()
        elif name == "vam":
            from flexstack.facilities.vru_awareness_service.vam_coder import VAMCoder
            _CODERS[name] = VAMCoder()
        elif name == "denm":
            from flexstack.facilities.decentralized_environmental_notification_service.denm_coder import DENMCoder
            _CODERS[name] = DENMCoder()
    return _CODERS[name]


class RecBTP:
    """Stands in for the BTP router at the facility boundary: records every BTPDataRequest with the
    virtual time at which it was handed over."""

    def __init__(self, clock):
        self.clock = clock
        self.requests = []      # (virtual time, BTPDataRequest)
        self.callbacks = {}

    def btp_data_request(self, request):
        self.requests.append((self.clock.now, request))

    def register_indication_callback_btp(self, port, callback):
        self.callbacks[port] = callback

    def freeze_callbacks(self):
        pass


def iso(t: float) -> str:
    """UTC ISO-8601 with millisecond resolution, as gpsd reports it."""
    ms = int(round(t * 1000))
    d = datetime.datetime.fromtimestamp(ms // 1000, datetime.timezone.utc)
    return d.strftime("%Y-%m-%dT%H:%M:%S") + ".%03dZ" % (ms % 1000)


def tpv(t, fields: dict) -> dict:
    r = {"class": "TPV", "mode": 3, "time": iso(t)}
    r.update(fields)
    return r


def its_ms_of_iso(t: float) -> int:
    """ITS timestamp (ms) of a report time given as float seconds, at the report's ms resolution."""
    return int(round(t * 1000)) - 1072915200000 + 5000


def install_cam_time(clock, initial_delay_s=0.05):
    """Virtual timers + fixed initial delay for the CA basic service."""
    from flexstack.facilities.ca_basic_service import cam_transmission_management as ctm
    clock.install([ctm])
    clock._set(ctm, "random", types.SimpleNamespace(uniform=lambda a, b: min(b, max(a, initial_delay_s))))
    return ctm


def patch_real_time(clock):
    """vam_transmission_management imports `time` inside a function: patch time.time of the real module
    for the duration of a case (restored by clock.uninstall())."""
    import time as _t
    clock._set(_t, "time", lambda: clock.now)

"""Real FlexStack stations wired to a simulated ether (DESIGN 1.2)."""
from __future__ import annotations

import contextlib
import io
from collections import deque

from flexstack.btp.router import Router as BTPRouter
from flexstack.geonet import router as gn_router_mod
from flexstack.geonet.gn_address import GNAddress, M, MID, ST
from flexstack.geonet.mib import MIB
from flexstack.geonet.position_vector import LongPositionVector, TST
from flexstack.linklayer.link_layer import LinkLayer

from . import refcodec as rc
from .vclock import tst32


class SimLinkLayer(LinkLayer):
    def __init__(self, station, ether):
        super().__init__(lambda b: None)
        self.station = station
        self.ether = ether
        self.sent = []

    def send(self, packet: bytes) -> None:
        packet = bytes(packet)
        self.sent.append(packet)
        self.ether.on_send(self.station, packet)


class Ether:
    """Broadcast medium with an adjacency relation; FIFO delivery."""

    def __init__(self):
        self.stations = []
        self.adj = {}
        self.log = []          # (sender index, bytes)
        self.queue = deque()
        self.errors = []       # (receiver idx, exception repr, frame)
        self.auto = True

    def add(self, station):
        station.index = len(self.stations)
        self.stations.append(station)
        self.adj[station.index] = set()

    def connect_all(self):
        for a in self.adj:
            self.adj[a] = set(self.adj) - {a}

    def connect(self, a, b):
        self.adj[a].add(b)
        self.adj[b].add(a)

    def on_send(self, station, packet):
        self.log.append((station.index, packet))
        for r in sorted(self.adj[station.index]):
            self.queue.append((station.index, r, packet))

    def pump(self, max_steps=2000):
        """Deliver queued frames until quiescent.  Returns False when the bound was hit."""
        steps = 0
        while self.queue:
            steps += 1
            if steps > max_steps:
                return False
            s, r, pkt = self.queue.popleft()
            self.stations[r].receive(pkt, frm=s)
        return True


def make_addr(mid: bytes, st=5, m=0) -> GNAddress:
    return GNAddress(m=M(m), st=ST(st), mid=MID(bytes(mid)))


class Station:
    """One real GN router + BTP router.  Indications per port are recorded."""

    def __init__(self, ether: Ether | None, mid: bytes, *, st=5, mib_kwargs=None, sign_service=None,
                 verify_service=None, ports=(), quiet=True):
        kw = dict(mib_kwargs or {})
        self.addr = make_addr(mid, st)
        kw.setdefault("itsGnLocalGnAddr", self.addr)
        kw.setdefault("itsGnBeaconServiceRetransmitTimer", 0)
        self.mib = MIB(**kw)
        self.quiet = quiet
        self.gn = gn_router_mod.Router(self.mib, sign_service=sign_service, verify_service=verify_service)
        self.btp = BTPRouter(self.gn)
        self.gn_indications = []
        self.btp_indications = {}   # port -> list
        self.errors = []
        self.ether = ether
        self.index = None
        if ether is not None:
            ether.add(self)
            self.ll = SimLinkLayer(self, ether)
        else:
            self.ll = SimLinkLayer(self, _NullEther())
        self.gn.link_layer = self.ll
        for p in ports:
            self.btp_indications[p] = []
            self.btp.register_indication_callback_btp(p, self._mk_cb(p))
        self.btp.freeze_callbacks()
        self.gn.register_indication_callback(self._gn_ind)
        self.upper_errors = []

    def _mk_cb(self, port):
        def cb(ind, port=port):
            self.btp_indications[port].append(ind)
        return cb

    def _gn_ind(self, ind):
        self.gn_indications.append(ind)
        self.btp.btp_data_indication(ind)

    def set_position(self, now_utc, lat, lon, *, pai=True, speed=0, heading=0):
        """Install an ego position vector (lat/lon in 1/10 microdegree ints)."""
        pv = LongPositionVector(gn_addr=self.addr, tst=TST(msec=tst32(now_utc)), latitude=int(lat),
                                longitude=int(lon), pai=bool(pai), s=int(speed), h=int(heading))
        with self.gn.ego_position_vector_lock:
            self.gn.ego_position_vector = pv
        return pv

    def receive(self, pkt: bytes, frm=None):
        """Deliver a frame to the GN router the way a link layer does.  Exceptions are recorded."""
        try:
            if self.quiet:
                with contextlib.redirect_stdout(io.StringIO()):
                    self.gn.gn_data_indicate(pkt)
            else:
                self.gn.gn_data_indicate(pkt)
        except Exception as e:  # recorded: C04 judges these, other checks decide what they mean
            self.errors.append((type(e).__name__, str(e)[:200], bytes(pkt)))
            return e
        return None

    def call(self, fn, *a, **k):
        if self.quiet:
            with contextlib.redirect_stdout(io.StringIO()):
                return fn(*a, **k)
        return fn(*a, **k)


class _NullEther:
    def on_send(self, station, packet):
        pass


def so_dict(addr_bytes, now_utc, lat, lon, pai=1, speed=0, heading=0, tst=None):
    return {"addr": addr_bytes, "tst": tst32(now_utc) if tst is None else tst, "lat": lat, "lon": lon, "pai": pai,
            "speed": speed, "heading": heading}


def addr_bytes(mid: bytes, st=5, m=0) -> bytes:
    return rc.build_addr(m, st, mid)


def secured_station(ether, mid, own_at, known_ats=(), ports=(2001, 2002, 2018, 3000), mib_kwargs=None, zoo=None, aas=None):
    """Station with itsGnSecurity ENABLED, trusting the zoo's root and AA, signing with own_at."""
    from flexstack.geonet.mib import GnSecurity
    from . import pki
    z = zoo or pki.Zoo.get()
    lib, sign, ver = z.station_security(own_at, known_ats, aas=aas)
    kw = dict(mib_kwargs or {})
    kw.setdefault("itsGnSecurity", GnSecurity.ENABLED)
    kw.setdefault("itsGnMaxPacketDataRate", 10**9)
    st = Station(ether, mid, mib_kwargs=kw, sign_service=sign, verify_service=ver, ports=ports)
    st.lib, st.sign, st.ver = lib, sign, ver
    return st


def secured_request(profile, payload, *, port=None, area=None, hop_limit=5):
    """GNDataRequest for profile in cam|vam|denm|other (BTP-B header prepended)."""
    from flexstack.geonet.service_access_point import (Area, CommonNH, GeoBroadcastHST, GNDataRequest, HeaderType, PacketTransportType, TopoBroadcastHST)
    from flexstack.security.security_profiles import SecurityProfile
    prof = {"cam": (SecurityProfile.COOPERATIVE_AWARENESS_MESSAGE, 36, 2001), "vam": (SecurityProfile.VRU_AWARENESS_MESSAGE, 638, 2018),
            "denm": (SecurityProfile.DECENTRALIZED_ENVIRONMENTAL_NOTIFICATION_MESSAGE, 37, 2002), "other": (SecurityProfile.NO_SECURITY, 999, 3000)}[profile]
    p = prof[2] if port is None else port
    data = rc.build_btp(p, 0) + bytes(payload)
    if profile == "denm":
        ptt = PacketTransportType(HeaderType.GEOBROADCAST, GeoBroadcastHST.GEOBROADCAST_CIRCLE)
        return GNDataRequest(upper_protocol_entity=CommonNH.BTP_B, packet_transport_type=ptt, security_profile=prof[0], its_aid=prof[1],
                             area=area or Area(latitude=413000000, longitude=21000000, a=1000, b=1000, angle=0), data=data, length=len(data), max_hop_limit=hop_limit)
    ptt = PacketTransportType(HeaderType.TSB, TopoBroadcastHST.SINGLE_HOP)
    return GNDataRequest(upper_protocol_entity=CommonNH.BTP_B, packet_transport_type=ptt, security_profile=prof[0], its_aid=prof[1], data=data, length=len(data))

"""Independent EN 302 931 geometry (DESIGN 1.2): two projections, verdicts only where both agree
outside a tolerance band."""
from __future__ import annotations

import math

R = 6371000.0


def _rad(x10):
    return math.radians(x10 / 1e7)


def enu_great_circle(clat, clon, plat, plon):
    """(north, east) metres of P relative to C via great-circle distance + initial bearing."""
    f1, l1, f2, l2 = _rad(clat), _rad(clon), _rad(plat), _rad(plon)
    dl = l2 - l1
    sdf, sdl = math.sin((f2 - f1) / 2), math.sin(dl / 2)
    h = sdf * sdf + math.cos(f1) * math.cos(f2) * sdl * sdl
    d = 2 * R * math.asin(min(1.0, math.sqrt(h)))
    y = math.sin(dl) * math.cos(f2)
    x = math.cos(f1) * math.sin(f2) - math.sin(f1) * math.cos(f2) * math.cos(dl)
    brg = math.atan2(y, x)
    return d * math.cos(brg), d * math.sin(brg)


def wrap_lon(x10):
    """Longitude (or longitude difference) in 1/10 microdegree folded into [-180, 180) degrees."""
    return (int(x10) + 1800000000) % 3600000000 - 1800000000


def enu_equirect(clat, clon, plat, plon):
    """(north, east) metres, equirectangular around the centre latitude; the longitude difference is taken the short way round."""
    f1, f2 = _rad(clat), _rad(plat)
    return R * (f2 - f1), R * _rad(wrap_lon(plon - clon)) * math.cos(f1)


def destination(clat, clon, north, east):
    """Point (1/10 microdegree ints) reached from C by the offset (great-circle forward problem)."""
    d = math.hypot(north, east)
    if d == 0:
        return int(clat), int(clon)
    brg = math.atan2(east, north)
    f1, l1 = _rad(clat), _rad(clon)
    ang = d / R
    f2 = math.asin(max(-1.0, min(1.0, math.sin(f1) * math.cos(ang) + math.cos(f1) * math.sin(ang) * math.cos(brg))))
    l2 = l1 + math.atan2(math.sin(brg) * math.sin(ang) * math.cos(f1), math.cos(ang) - math.sin(f1) * math.sin(f2))
    lat = int(round(math.degrees(f2) * 1e7))
    lon = wrap_lon(int(round(math.degrees(l2) * 1e7)))
    return lat, lon


def area_frame(north, east, azimuth_deg):
    """(along, across): components along the long side (azimuth clockwise from North) and across it."""
    t = math.radians(azimuth_deg)
    return north * math.cos(t) + east * math.sin(t), -north * math.sin(t) + east * math.cos(t)


def from_area_frame(along, across, azimuth_deg):
    t = math.radians(azimuth_deg)
    return along * math.cos(t) - across * math.sin(t), along * math.sin(t) + across * math.cos(t)


def F(shape, a, b, along, across):
    """EN 302 931 geometric function; shape 0 circle, 1 rectangle, 2 ellipse."""
    if a <= 0 or (shape != 0 and b <= 0):
        return -1.0
    if shape == 0:
        return 1 - (along / a) ** 2 - (across / a) ** 2
    if shape == 1:
        return min(1 - (along / a) ** 2, 1 - (across / b) ** 2)
    return 1 - (along / a) ** 2 - (across / b) ** 2


def verdict(shape, a, b, azimuth, clat, clon, plat, plon, rel_tol=0.03, abs_tol=2.0):
    """'inside' / 'outside' when both projections agree with margin, else None (tolerance band,
    projection disagreement or polar neighbourhood); areas across the antimeridian are judged like any other."""
    if abs(clat) > 850000000 or abs(plat) > 850000000:
        return None
    res = []
    # how far the two projections are apart at this point says how much any flat projection of it can be trusted: twice that
    # distance is added to the tolerance band (matters for needle-shaped areas tens of kilometres long)
    (n1, e1), (n2, e2) = enu_great_circle(clat, clon, plat, plon), enu_equirect(clat, clon, plat, plon)
    abs_tol = abs_tol + 2.0 * math.hypot(n1 - n2, e1 - e2)
    for proj in (enu_great_circle, enu_equirect):
        n, e = proj(clat, clon, plat, plon)
        al, ac = area_frame(n, e, azimuth)
        a_in, b_in = a * (1 - rel_tol) - abs_tol, b * (1 - rel_tol) - abs_tol
        a_out, b_out = a * (1 + rel_tol) + abs_tol, b * (1 + rel_tol) + abs_tol
        if a_in > 0 and (shape == 0 or b_in > 0) and F(shape, a_in, b_in, al, ac) >= 0:
            res.append("inside")
        elif F(shape, a_out, b_out, al, ac) < 0:
            res.append("outside")
        else:
            res.append(None)
    if res[0] is not None and res[0] == res[1]:
        return res[0]
    return None


def area_size_m2(shape, a, b):
    if shape == 0:
        return math.pi * a * a
    if shape == 1:
        return 4.0 * a * b
    return math.pi * a * b

"""Owned scheduler (DESIGN section 3): real threads serialised at bytecode-instruction granularity.

Every actor is a real threading.Thread but exactly one runs at a time.  Inside the anchored source
files each actor's trace function receives `opcode` events; at interesting instructions (attribute /
subscript loads and stores, membership tests, calls) the scheduler consults the *schedule* - a list
of small integers, the generated and shrinkable input - to decide who runs next.  Locks created by
the anchored modules are replaced by cooperative locks; a state in which no actor is runnable while
some are blocked is reported as a deadlock."""
from __future__ import annotations

import dis
import sys
import threading
import time

_INTERESTING_NAMES = {"LOAD_ATTR", "STORE_ATTR", "DELETE_ATTR", "BINARY_SUBSCR", "STORE_SUBSCR", "DELETE_SUBSCR", "CONTAINS_OP", "CALL", "LOAD_METHOD", "CALL_FUNCTION_EX"}
INTERESTING = {dis.opmap[n] for n in _INTERESTING_NAMES if n in dis.opmap}


class Deadlock(Exception):
    pass


class Actor:
    def __init__(self, sched, idx, name, fn):
        self.sched, self.idx, self.name, self.fn = sched, idx, name, fn
        self.sem = threading.Semaphore(0)
        self.done = False
        self.blocked_on = None
        self.error = None
        self.thread = threading.Thread(target=self._run, name="actor-%s" % name, daemon=True)
        self.steps = 0

    def _run(self):
        self.sem.acquire()                 # wait until scheduled for the first time
        if self.sched.aborted:
            self.sched._finished(self)
            return
        sys.settrace(self.sched._global_trace)
        try:
            self.fn()
        except BaseException as e:         # recorded: "no thread fails"
            if not isinstance(e, _Abort):
                self.error = e
        finally:
            sys.settrace(None)
            self.sched._finished(self)


class _Abort(BaseException):
    pass


class Scheduler:
    def __init__(self, files, schedule, max_points=60000, real_timeout=120.0):
        self.files = set(files)
        self.schedule = list(schedule)
        self.max_points = max_points
        self.real_timeout = real_timeout
        self.actors = []
        self.current = None
        self.point = 0                 # number of yield points passed (logical clock)
        self.switches = 0
        self.trace = []                # (point, actor idx) at every context switch
        self.deadlock = None
        self.aborted = False
        self.all_done = threading.Event()
        self.by_thread = {}
        self.switch_sites = []         # (filename:lineno) where a preemptive switch happened
        self.log = []                  # free-form events appended by the harness: (point, actor, what)

    # ---- actors --------------------------------------------------------------------------------
    def spawn(self, name, fn):
        a = Actor(self, len(self.actors), name, fn)
        self.actors.append(a)
        return a

    def me(self):
        return self.by_thread.get(threading.get_ident())

    def run(self):
        for a in self.actors:
            a.thread.start()
            self.by_thread[a.thread.ident] = a
        first = self._pick(None)
        self.current = first
        first.sem.release()
        if not self.all_done.wait(self.real_timeout):
            self.aborted = True
            raise RuntimeError("scheduler watchdog: actors did not finish in real time (point %d)" % self.point)
        return self

    # ---- decisions -----------------------------------------------------------------------------
    def _runnable(self):
        return [a for a in self.actors if not a.done and a.blocked_on is None]

    def _decision(self):
        d = self.schedule[self.point] if self.point < len(self.schedule) else 0
        self.point += 1
        return d

    def _pick(self, cur):
        run = self._runnable()
        if not run:
            return None
        d = self._decision()
        if cur is not None and cur in run:
            order = [cur] + [a for a in run if a is not cur]
        else:
            order = run
        return order[d % len(order)]

    def _switch_to(self, cur, nxt):
        """Called in cur's thread: hand the CPU to nxt and park cur until it is scheduled again."""
        if nxt is cur:
            return
        self.switches += 1
        self.trace.append((self.point, nxt.idx))
        self.current = nxt
        nxt.sem.release()
        cur.sem.acquire()
        if self.aborted:
            raise _Abort()

    def yield_point(self, frame=None):
        cur = self.me()
        if cur is None or cur is not self.current or self.aborted:
            return
        cur.steps += 1
        if self.point >= self.max_points:
            self.aborted = True
            self._abort_all(cur)
            raise _Abort()
        nxt = self._pick(cur)
        if nxt is not None and nxt is not cur:
            if frame is not None:
                self.switch_sites.append("%s:%d" % (frame.f_code.co_filename.rsplit("/", 1)[-1], frame.f_lineno))
            self._switch_to(cur, nxt)

    def block(self, lock):
        """cur cannot proceed (lock held): mark blocked and run somebody else; returns when unblocked and scheduled."""
        cur = self.me()
        cur.blocked_on = lock
        nxt = self._pick(cur)
        if nxt is None:
            self.deadlock = [(a.name, getattr(a.blocked_on, "name", "?"), getattr(getattr(a.blocked_on, "owner", None), "name", None)) for a in self.actors if not a.done]
            self.aborted = True
            self._abort_all(cur)
            raise _Abort()
        self._switch_to(cur, nxt)

    def _finished(self, a):
        a.done = True
        if self.aborted:
            if all(x.done for x in self.actors):
                self.all_done.set()
            return
        run = self._runnable()
        if run:
            nxt = self._pick(None)
            self.current = nxt
            self.trace.append((self.point, nxt.idx))
            nxt.sem.release()
        elif all(x.done for x in self.actors):
            self.all_done.set()
        else:
            self.deadlock = [(x.name, getattr(x.blocked_on, "name", "?"), getattr(getattr(x.blocked_on, "owner", None), "name", None)) for x in self.actors if not x.done]
            self.aborted = True
            self._abort_all(a)

    def _abort_all(self, cur):
        for x in self.actors:
            if x is not cur and not x.done:
                x.sem.release()
        # the aborting actor unwinds by itself; completion is signalled when the last one is done
        pending = [x for x in self.actors if not x.done and x is not cur]
        if not pending:
            pass

    # ---- tracing -------------------------------------------------------------------------------
    def _global_trace(self, frame, event, arg):
        if frame.f_code.co_filename in self.files:
            frame.f_trace_opcodes = True
            return self._local_trace
        return None

    def _local_trace(self, frame, event, arg):
        if event == "opcode":
            code = frame.f_code.co_code
            if code[frame.f_lasti] in INTERESTING:
                self.yield_point(frame)
        return self._local_trace

    # ---- cooperative primitives -----------------------------------------------------------------
    def Lock(self, name="lock"):
        return CoLock(self, False, name)

    def RLock(self, name="rlock"):
        return CoLock(self, True, name)


class CoLock:
    _n = 0

    def __init__(self, sched, reentrant, name):
        CoLock._n += 1
        self.sched, self.reentrant = sched, reentrant
        self.name = "%s#%d" % (name, CoLock._n)
        self.owner = None
        self.count = 0
        self.acquisitions = 0

    def acquire(self, blocking=True, timeout=-1):
        s = self.sched
        me = s.me()
        if me is None:
            # harness thread (set-up / inspection outside the scheduled region)
            self.owner, self.count = "harness", self.count + 1
            return True
        s.yield_point()
        while self.owner is not None and not (self.reentrant and self.owner is me):
            if not blocking or s.aborted:
                return False
            s.block(self)
        self.owner = me
        self.count += 1
        self.acquisitions += 1
        return True

    def release(self):
        if self.count <= 0:
            raise RuntimeError("release unlocked lock")
        self.count -= 1
        if self.count == 0:
            self.owner = None
            for a in self.sched.actors:
                if a.blocked_on is self:
                    a.blocked_on = None
        me = self.sched.me()
        if me is not None:
            self.sched.yield_point()

    def locked(self):
        return self.owner is not None

    def __enter__(self):
        self.acquire()
        return self

    def __exit__(self, *a):
        self.release()
        return False


def lock_factories(sched):
    """(Lock, RLock) callables for module attribute patching; names count up for diagnostics."""
    return (lambda: sched.Lock("Lock"), lambda: sched.RLock("RLock"))


def enumerate_single_preemptions(n_points, n_actors, limit=None):
    """All schedules with exactly one preemption: at point p switch to the k-th other runnable actor."""
    out = []
    for p in range(n_points):
        for k in range(1, n_actors):
            out.append([0] * p + [k])
            if limit and len(out) >= limit:
                return out
    return out

"""Certificate zoo and independent chain / message verification (DESIGN 1.2).

Genuine chain through the repository's issuing API; everything the API refuses to produce is
built by signing directly with `ecdsa`.  The independent checker shares no verification logic
with the repository (trusted base: asn1tools + the repository's ASN.1 module text + ecdsa)."""
from __future__ import annotations

import copy
import hashlib

import ecdsa

T0 = 1_700_000_000.0
ITS_EPOCH = 1072915200
LEAP = 5

_DUR = {"microseconds": 1e-6, "milliseconds": 1e-3, "seconds": 1, "minutes": 60, "hours": 3600, "sixtyHours": 216000, "years": 31556952}


def its_s(utc):
    return int(utc - ITS_EPOCH + LEAP)


def coder():
    from flexstack.security.certificate import SECURITY_CODER
    return SECURITY_CODER


def enc_cert(cert: dict) -> bytes:
    return coder().encode_etsi_ts_103097_certificate(cert)


def hashedid8(cert: dict) -> bytes:
    return hashlib.sha256(enc_cert(cert)).digest()[-8:]


def pk_tuple(sk: ecdsa.SigningKey):
    p = sk.verifying_key.pubkey.point
    return ("ecdsaNistP256", ("uncompressedP256", {"x": p.x().to_bytes(32, "big"), "y": p.y().to_bytes(32, "big")}))


def raw_sign(sk: ecdsa.SigningKey, data: bytes):
    sig = sk.sign(data, hashfunc=hashlib.sha256)
    r, s = ecdsa.util.sigdecode_string(sig, ecdsa.NIST256p.order)
    return ("ecdsaNistP256Signature", {"rSig": ("x-only", r.to_bytes(32, "big")), "sSig": s.to_bytes(32, "big")})


def raw_verify(pk, data: bytes, signature) -> bool:
    try:
        if signature[0] != "ecdsaNistP256Signature" or signature[1]["rSig"][0] != "x-only":
            return False
        if pk[0] != "ecdsaNistP256" or pk[1][0] != "uncompressedP256":
            return False
        r = int.from_bytes(signature[1]["rSig"][1], "big")
        s = int.from_bytes(signature[1]["sSig"], "big")
        x = int.from_bytes(pk[1][1]["x"], "big")
        y = int.from_bytes(pk[1][1]["y"], "big")
        point = ecdsa.ellipticcurve.Point(ecdsa.NIST256p.curve, x, y, ecdsa.NIST256p.order)
        vk = ecdsa.VerifyingKey.from_public_point(point, curve=ecdsa.NIST256p)
        return vk.verify(ecdsa.util.sigencode_string(r, s, ecdsa.NIST256p.order), data, hashfunc=hashlib.sha256)
    except Exception:
        return False


# ---- ToBeSigned builders -----------------------------------------------------------------------
def tbs_ca(name, issue, min_chain=2, app=None, start=None, duration=("hours", 48)):
    """issue: 'all' or list of psids."""
    sp = ("all", None) if issue == "all" else ("explicit", [{"psid": p} for p in issue])
    d = {
        "id": ("name", name), "cracaId": b"\x00\x00\x00", "crlSeries": 0,
        "validityPeriod": {"start": its_s(T0) - 3600 if start is None else start, "duration": duration},
        "certIssuePermissions": [{"subjectPermissions": sp, "minChainLength": min_chain, "chainLengthRange": 0, "eeType": (b"\x00", 1)}],
        "verifyKeyIndicator": ("verificationKey", ("ecdsaNistP256", ("fill", None))),
    }
    if app is not None:
        d["appPermissions"] = [{"psid": p} for p in app]
    return d


def tbs_at(app, start=None, duration=("hours", 48)):
    return {
        "id": ("none", None), "cracaId": b"\x00\x00\x00", "crlSeries": 0,
        "validityPeriod": {"start": its_s(T0) - 3600 if start is None else start, "duration": duration},
        "appPermissions": [{"psid": p} for p in app],
        "verifyKeyIndicator": ("verificationKey", ("ecdsaNistP256", ("fill", None))),
    }


def forge_cert(tbs: dict, subject_sk: ecdsa.SigningKey, issuer_cert: dict | None, signing_sk: ecdsa.SigningKey, issuer_digest: bytes | None = None) -> dict:
    """Certificate dict signed directly with `signing_sk` (bypasses the issuing API).
    issuer_cert None => self-signed."""
    tbs = copy.deepcopy(tbs)
    tbs["verifyKeyIndicator"] = ("verificationKey", pk_tuple(subject_sk))
    if issuer_cert is None and issuer_digest is None:
        issuer = ("self", "sha256")
    else:
        issuer = ("sha256AndDigest", issuer_digest if issuer_digest is not None else hashedid8(issuer_cert))
    cert = {"version": 3, "type": "explicit", "issuer": issuer, "toBeSigned": tbs,
            "signature": raw_sign(signing_sk, coder().encode_ToBeSignedCertificate(tbs))}
    return cert


# ---- independent chain checker -----------------------------------------------------------------
def issue_perms(cert: dict):
    """('all', None) or ('explicit', set) or ('none', set())."""
    perms = cert["toBeSigned"].get("certIssuePermissions")
    if not perms:
        return ("none", set())
    s = set()
    for p in perms:
        if p["subjectPermissions"][0] == "all":
            return ("all", None)
        for e in p["subjectPermissions"][1]:
            s.add(e["psid"])
    return ("explicit", s)


def budget_covers(issuer: dict, need, wants_all) -> bool:
    """Every needed PSID (and 'all', if asked for) is covered by an issuer certIssuePermissions entry whose own chain-length
    budget is not exhausted (minChainLength >= 1): an entry with budget 0 authorises nothing any more."""
    live = [p for p in issuer["toBeSigned"].get("certIssuePermissions", []) if p["minChainLength"] >= 1]
    live_all = any(p["subjectPermissions"][0] == "all" for p in live)
    if wants_all:
        return live_all
    if live_all:
        return True
    covered = {e["psid"] for p in live if p["subjectPermissions"][0] == "explicit" for e in p["subjectPermissions"][1]}
    return set(need) <= covered


def needed_perms(cert: dict):
    tbs = cert["toBeSigned"]
    need = {e["psid"] for e in tbs.get("appPermissions", [])}
    kind, s = issue_perms(cert)
    wants_all = kind == "all"
    if kind == "explicit":
        need |= s
    return need, wants_all


def check_store(lib, configured_roots):
    """Independent closure check of a CertificateLibrary.  Returns list of (store, digest hex, reason)."""
    problems = []
    roots = {d: c.certificate for d, c in lib.known_root_certificates.items()}
    aas = {d: c.certificate for d, c in lib.known_authorization_authorities.items()}
    ats = {d: c.certificate for d, c in lib.known_authorization_tickets.items()}
    for d in roots:
        if d not in configured_roots:
            problems.append(("root", d.hex(), "root certificate that was never configured as trusted"))
    memo = {}

    def trusted_issuer(cert, depth=0):
        """Return issuer cert dict if the chain up to a configured root verifies, else reason string."""
        iss = cert.get("issuer")
        if iss[0] != "sha256AndDigest":
            return "issuer is not a digest"
        dig = iss[1]
        if dig in roots and dig in configured_roots:
            return roots[dig]
        if dig in aas:
            if depth > 6:
                return "issuer chain too deep / cyclic"
            ok = verify_entry(dig, aas[dig], depth + 1)
            if ok is not True:
                return "issuer %s not itself trusted: %s" % (dig.hex(), ok)
            return aas[dig]
        return "issuer %s not in the store" % dig.hex()

    def verify_entry(dig, cert, depth=0):
        key = dig
        if key in memo:
            return memo[key]
        memo[key] = "cyclic"
        if hashedid8(cert) != dig:
            memo[key] = "stored under a digest that is not its HashedId8"
            return memo[key]
        issuer = trusted_issuer(cert, depth)
        if isinstance(issuer, str):
            memo[key] = issuer
            return issuer
        vki = issuer["toBeSigned"]["verifyKeyIndicator"]
        if vki[0] != "verificationKey" or not raw_verify(vki[1], coder().encode_ToBeSignedCertificate(cert["toBeSigned"]), cert["signature"]):
            memo[key] = "signature does not verify under the issuer's key"
            return memo[key]
        need, wants_all = needed_perms(cert)
        kind, allowed = issue_perms(issuer)
        if kind == "none" and (need or wants_all):
            memo[key] = "issuer has no issuing permissions"
            return memo[key]
        if kind == "explicit":
            if wants_all:
                memo[key] = "asks for 'all' issuing permissions under an issuer limited to %s" % sorted(allowed)
                return memo[key]
            if not need <= allowed:
                memo[key] = "permissions %s not contained in issuer's %s" % (sorted(need - allowed), sorted(allowed))
                return memo[key]
        if (need or wants_all) and not budget_covers(issuer, need, wants_all):
            memo[key] = "permissions %s covered only by issuer entries whose chain length budget is exhausted" % sorted(need)
            return memo[key]
        memo[key] = True
        return True

    for d, c in aas.items():
        r = verify_entry(d, c)
        if r is not True:
            problems.append(("aa", d.hex(), r))
    for d, c in ats.items():
        memo.pop(d, None)
        r = verify_entry(d, c)
        if r is not True:
            problems.append(("at", d.hex(), r))
    return problems


def validity_covers(cert: dict, gen_time_us: int) -> bool:
    v = cert["toBeSigned"]["validityPeriod"]
    start = v["start"] * 1_000_000
    end = start + v["duration"][1] * _DUR[v["duration"][0]] * 1_000_000
    return start <= gen_time_us <= end


# ---- the zoo -----------------------------------------------------------------------------------
class Zoo:
    _inst = None

    @classmethod
    def get(cls):
        if cls._inst is None:
            cls._inst = Zoo()
        return cls._inst

    def __init__(self):
        from flexstack.security.certificate import OwnCertificate
        from flexstack.security.ecdsa_backend import PythonECDSABackend
        self.backend = PythonECDSABackend()
        B = self.backend
        mk = OwnCertificate.initialize_certificate
        self.root = mk(B, tbs_ca("root.vf", "all", 3))
        self.aa = mk(B, tbs_ca("aa.vf", [36, 37, 638, 999], 1), self.root)          # explicit PSIDs
        self.aa_all = mk(B, tbs_ca("aa-all.vf", "all", 2), self.root)               # 'all'
        self.aa36 = mk(B, tbs_ca("aa36.vf", [36], 1), self.root)
        self.ats = [mk(B, tbs_at([36, 37, 638, 999]), self.aa) for _ in range(4)]
        self.at36 = mk(B, tbs_at([36]), self.aa)
        self.at_expired = mk(B, tbs_at([36, 37, 638, 999], start=its_s(T0) - 10 * 86400, duration=("hours", 1)), self.aa)
        self.at_future = mk(B, tbs_at([36, 37, 638, 999], start=its_s(T0) + 10 * 86400, duration=("hours", 1)), self.aa)
        # attacker: own root / AA / AT chain (valid among themselves)
        self.evil_root = mk(B, tbs_ca("root.vf", "all", 3))
        self.evil_aa = mk(B, tbs_ca("aa.vf", [36, 37, 638, 999], 1), self.evil_root)
        self.evil_at = mk(B, tbs_at([36, 37, 638, 999]), self.evil_aa)
        self.evil_sk = ecdsa.SigningKey.generate(curve=ecdsa.NIST256p)

    def sk(self, own):
        return self.backend.keys[own.key_id]

    def library(self, ats=(), aas=None, roots=None):
        from flexstack.security.certificate_library import CertificateLibrary
        return CertificateLibrary(self.backend, [self.root] if roots is None else roots, [self.aa] if aas is None else aas, list(ats))

    def at_under_all(self):
        """An authorization ticket issued by the second AA (aa_all) of the same root."""
        if getattr(self, "_at_all", None) is None:
            from flexstack.security.certificate import OwnCertificate
            self._at_all = OwnCertificate.initialize_certificate(self.backend, tbs_at([36, 37, 638, 999]), self.aa_all)
        return self._at_all

    def station_security(self, own_at, known_ats=(), with_sign=True, aas=None):
        from flexstack.security.sign_service import SignService
        from flexstack.security.verify_service import VerifyService
        lib = self.library(known_ats, aas=aas)
        sign = SignService(self.backend, lib)
        if own_at is not None:
            sign.add_own_certificate(own_at)
        ver = VerifyService(self.backend, lib, sign if with_sign else None)
        return lib, sign, ver

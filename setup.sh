#!/bin/sh
# Idempotent, offline set-up: hypothesis into /venv (if absent), atheris into .deps (optional).
HERE="$(cd "$(dirname "$0")" && pwd)"
PY="${VF_PYTHON:-/venv/bin/python}"
WH=/opt/veriftools/wheels
export PIP_NO_INDEX=1
"$PY" -c "import hypothesis" 2>/dev/null || \
  "$PY" -m pip install --no-index --find-links "$WH" hypothesis >/dev/null 2>&1 || \
  "$PY" -m pip install --no-index --find-links "$WH" --target "$HERE/.deps" hypothesis >/dev/null 2>&1
if [ ! -d "$HERE/.deps/atheris" ]; then
  mkdir -p "$HERE/.deps"
  "$PY" -m pip install --no-index --find-links "$WH" --target "$HERE/.deps" atheris >/dev/null 2>&1 || true
fi
mkdir -p "$HERE/evidence" "$HERE/replays" "$HERE/.work"
exit 0
